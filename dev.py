#!/usr/bin/env python3
"""dev.py <groups,comma> <cell-regex> [tier] : run step cells ad hoc (development aid, not a registered check)."""
import sys, os, re, json, time, concurrent.futures as cf
sys.path.insert(0, os.path.dirname(os.path.abspath(__file__)))
from vlib import core
from vlib.core import Runner
import jobs
def main():
    fn = sys.argv[1]; rx = sys.argv[2]; tier = sys.argv[3] if len(sys.argv) > 3 else "quick"
    jl = [j for j in getattr(jobs, fn)(tier) if re.search(rx, j.name)]
    rn = Runner("DEV", tier)
    with cf.ThreadPoolExecutor(max_workers=int(os.environ.get("VERIF_JOBS", "12"))) as ex:
        for r in ex.map(rn.solve, jl):
            st = "ok" if r.ok else ("ERROR" if r.error else "FAILED")
            print("%-36s %-6s asserts=%d safety=%d reach=%d/%d cbmc=%.1fs rss=%sMB vars=%s %s" % (r.job.name, st, r.n_prop_asserts, r.n_safety, r.reach_ok, r.n_reach, r.t_cbmc, r.rss_mb, r.vars, (r.error or "")[:1500]), flush=True)
            for f in r.failed[:6]:
                print("    FAIL %s:%s %s :: %s" % (f["file"], f["line"], f["function"], f["description"]))
                if os.environ.get("SHOWIN"):
                    print("    input:", json.dumps(core.compact(f["input"], 40))[:3000])
main()
