/* vdnsref.h: an independent, strict RFC 1035 message parser used as the oracle for C10 (and by
 * C08/C09/C20). Written from the RFC, not from src/dns.c. Everything is bounded by macros so
 * that CBMC can unwind it: RM_MAXLAB labels per name, RM_MAXRR records, RM_MAXTXT strings.
 */
#ifndef VDNSREF_H
#define VDNSREF_H
#include <stdint.h>

#ifndef RM_MAXLAB
#define RM_MAXLAB 8
#endif
#ifndef RM_MAXRR
#define RM_MAXRR 3
#endif
#ifndef RM_MAXTXT
#define RM_MAXTXT 3
#endif
#ifndef RM_MAXMSG
#define RM_MAXMSG 600
#endif
#ifndef RM_MAXLABLEN
#define RM_MAXLABLEN 63		/* unwinding bound of the label copy loop; labels longer than this are reported */
#endif
#define RM_NAME 256

struct rm_rr {
	unsigned nameoff, type, klass, ttl, rdlen, rdoff;
	char name[RM_NAME];	/* owner name, dotted */
	char rname[RM_NAME];	/* name inside RDATA for CNAME/NS/MX/SRV */
	unsigned pref;		/* MX preference / SRV priority */
};
struct rm_msg {
	unsigned id, flags, qd, an, ns, ar;
	char qname[RM_NAME];
	unsigned qtype, qclass;
	unsigned nrr;
	struct rm_rr rr[RM_MAXRR];
	unsigned end;		/* offset after the last record */
	const char *err;
};

/* label-start marks: a compression pointer may only target one of these offsets */
static unsigned char rm_mark[RM_MAXMSG];

static unsigned rm_u16(const unsigned char *p, unsigned o) { return ((unsigned) p[o] << 8) | p[o + 1]; }

/* Parses a (possibly compressed) name at *off. Writes dotted text (no trailing dot, "" for root).
 * Returns 0 on success and advances *off past the name as it appears at this position. */
static int rm_name(const unsigned char *p, unsigned len, unsigned *off, char *out, const char **err)
{
	unsigned o = *off, outl = 0, wire = 0, lab, i, jumped = 0, after = 0, hops = 0;
	for (lab = 0; lab <= RM_MAXLAB; lab++) {
		unsigned c;
		if (o >= len) { *err = "name runs past end of message"; return -1; }
		c = p[o];
		if (c == 0) {
			wire += 1;
			if (!jumped) after = o + 1;
			if (wire > 255) { *err = "name longer than 255 bytes"; return -1; }
			out[outl] = 0;
			*off = after;
			return 0;
		}
		if ((c & 0xc0) == 0xc0) {
			unsigned t;
#ifdef RM_NOPTR
			*err = "compression pointer where none is expected"; return -1;
#endif
			if (o + 1 >= len) { *err = "truncated compression pointer"; return -1; }
			t = ((c & 0x3f) << 8) | p[o + 1];
			if (t >= o) { *err = "compression pointer does not point backwards"; return -1; }
			if (t >= RM_MAXMSG || !rm_mark[t]) { *err = "compression pointer not at a label boundary"; return -1; }
			if (!jumped) after = o + 2;
			jumped = 1;
			if (++hops > 3) { *err = "too many compression hops for the oracle"; return -1; }
			o = t;
			continue;
		}
		if (c & 0xc0) { *err = "reserved label type"; return -1; }
		if (c > 63) { *err = "label longer than 63"; return -1; }
		if (o + 1 + c > len) { *err = "label runs past end of message"; return -1; }
#ifndef RM_NOPTR
		if (!jumped && o < RM_MAXMSG) rm_mark[o] = 1;
#endif
		if (c > RM_MAXLABLEN) { *err = "label longer than the oracle's bound"; return -1; }
		wire += 1 + c;
		if (wire > 255 || outl + c + 1 >= RM_NAME) { *err = "name longer than 255 bytes"; return -1; }
		if (outl) out[outl++] = '.';
		for (i = 0; i < RM_MAXLABLEN; i++) {
			if (i >= c) break;
			out[outl++] = (char) p[o + 1 + i];
		}
		o += 1 + c;
	}
	*err = "more labels than the oracle's bound";
	return -1;
}

#define RM_T_A 1
#define RM_T_NS 2
#define RM_T_CNAME 5
#define RM_T_NULL 10
#define RM_T_MX 15
#define RM_T_TXT 16
#define RM_T_SRV 33
#define RM_T_OPT 41

static int rm_parse(const unsigned char *p, unsigned len, struct rm_msg *m)
{
	unsigned off = 12, i, total;
	m->err = 0;
	m->nrr = 0;
#ifndef RM_NOPTR
	for (i = 0; i < RM_MAXMSG; i++) rm_mark[i] = 0;
#endif
	if (len < 12) { m->err = "shorter than a header"; return -1; }
	m->id = rm_u16(p, 0);
	m->flags = rm_u16(p, 2);
	m->qd = rm_u16(p, 4); m->an = rm_u16(p, 6); m->ns = rm_u16(p, 8); m->ar = rm_u16(p, 10);
	if (m->qd != 1) { m->err = "question count is not 1"; return -1; }
	if (rm_name(p, len, &off, m->qname, &m->err)) return -1;
	if (off + 4 > len) { m->err = "question truncated"; return -1; }
	m->qtype = rm_u16(p, off); m->qclass = rm_u16(p, off + 2);
	off += 4;
	total = m->an + m->ns + m->ar;
	if (total > RM_MAXRR) { m->err = "more records than the oracle's bound"; return -1; }
	for (i = 0; i < RM_MAXRR; i++) {
		struct rm_rr *r = &m->rr[i];
		unsigned ro, e;
		if (i >= total) break;
		r->nameoff = off;
		r->rname[0] = 0;
		r->pref = 0;
		if (rm_name(p, len, &off, r->name, &m->err)) return -1;
		if (off + 10 > len) { m->err = "record header truncated (counts exceed records present)"; return -1; }
		r->type = rm_u16(p, off); r->klass = rm_u16(p, off + 2);
		r->ttl = ((unsigned) rm_u16(p, off + 4) << 16) | rm_u16(p, off + 6);
		r->rdlen = rm_u16(p, off + 8);
		off += 10;
		r->rdoff = off;
		e = off + r->rdlen;
		if (e > len) { m->err = "RDLENGTH exceeds the bytes present"; return -1; }
		ro = off;
		if (r->type == RM_T_CNAME || r->type == RM_T_NS) {
			if (rm_name(p, e, &ro, r->rname, &m->err)) return -1;
			if (ro != e) { m->err = "RDLENGTH != size of the name in RDATA"; return -1; }
		} else if (r->type == RM_T_MX) {
			if (r->rdlen < 3) { m->err = "MX RDATA too short"; return -1; }
			r->pref = rm_u16(p, ro); ro += 2;
			if (rm_name(p, e, &ro, r->rname, &m->err)) return -1;
			if (ro != e) { m->err = "RDLENGTH != MX data size"; return -1; }
		} else if (r->type == RM_T_SRV) {
			if (r->rdlen < 7) { m->err = "SRV RDATA too short"; return -1; }
			r->pref = rm_u16(p, ro); ro += 6;
			if (rm_name(p, e, &ro, r->rname, &m->err)) return -1;
			if (ro != e) { m->err = "RDLENGTH != SRV data size"; return -1; }
		} else if (r->type == RM_T_TXT) {
			unsigned k;
			for (k = 0; k <= RM_MAXTXT; k++) {
				if (ro == e) break;
				if (k == RM_MAXTXT) { m->err = "more TXT strings than the oracle's bound"; return -1; }
				if (ro + 1 + p[ro] > e) { m->err = "TXT strings do not tile RDATA"; return -1; }
				ro += 1 + p[ro];
			}
			if (r->rdlen == 0) { m->err = "empty TXT RDATA"; return -1; }
		} else if (r->type == RM_T_A) {
			if (r->rdlen != 4) { m->err = "A RDATA is not 4 bytes"; return -1; }
		} else if (r->type == RM_T_OPT) {
			if (r->name[0] != 0) { m->err = "OPT owner is not the root"; return -1; }
		}
		off = e;
		m->nrr++;
	}
	m->end = off;
	if (off != len) { m->err = "bytes left over after the counted records"; return -1; }
	return 0;
}

static int rm_streq(const char *a, const char *b)
{
	unsigned i;
	for (i = 0; i < RM_NAME; i++) {
		if (a[i] != b[i]) return 0;
		if (!a[i]) return 1;
	}
	return 1;
}
#endif
