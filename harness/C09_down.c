/* C09 (partial): downstream payload coding, server writer -> client reader, without the DNS wire format.
 * Real code: iodined.c write_dns_nameenc() (this unit, textual include), client.c dns_namedec() (unit C09_cli.c),
 * encoding.c, the four codec units.
 *  KIND 1  hostname answers (CNAME/A/MX/SRV records): name = write_dns_nameenc(payload, downenc); client dns_namedec(name)
 *  KIND 2  TXT answers: text = <letter> + codec.encode(payload) composed as write_dns()'s TXT branch does (the three glue
 *          lines are repeated here, the branch is not a separate function); client dns_namedec(text)
 * Oracle: what the client extracts is exactly the first `count` payload bytes, count = what the writer reports
 * (KIND 1: <= payload length, the rest goes into the next record) or the whole payload (KIND 2); never other bytes.
 * Not covered here: dns_encode()/dns_decode() record framing, MX/SRV splitting and ordering, TXT 255-byte strings.
 */
#ifndef NPAY
#define NPAY 24
#endif
#ifndef TEXTSZ
#define TEXTSZ 300
#endif
#define VS_NOW 0
#define VS_RAND 4
#include <stdint.h>
struct vin { int n; unsigned char data[NPAY]; unsigned k; int td1, td2; };
#ifdef VREPLAY
#include "replay_in.h"
static struct vin IN = VIN_INIT;
#else
struct vin nondet_vin(void);
static struct vin IN;
#endif
#include "vserver.h"
ssize_t read_tun(int fd, char *buf, size_t len) { (void) fd; (void) buf; (void) len; return 0; }
int write_tun(int fd, char *data, size_t len) { (void) fd; (void) data; (void) len; return 0; }
int c09_namedec(char *outdata, int outdatalen, char *buf, int buflen);

void harness(void)
{
	static char pay[NPAY + 1], text[TEXTSZ], out[TEXTSZ];
	int i, rd;
#ifndef VREPLAY
	IN = nondet_vin();
#endif
	VASSUME(IN.n >= 2 && IN.n <= NPAY && IN.k < NPAY);
	for (i = 0; i < NPAY; i++) pay[i] = (char) IN.data[i];
#if KIND == 1
	{
		size_t enc = write_dns_nameenc(text, sizeof(text), pay, IN.n, DOWNENC);
		int len = (int) strlen(text);
		VASSERT(enc >= 1 && enc <= (size_t) IN.n, "writer reports a non-empty prefix of the payload");
		VASSERT(len <= 255 - 2, "answer name fits a DNS name");
		rd = c09_namedec(out, (int) sizeof(out), text, len);
		VASSERT(rd == (int) enc, "client extracts exactly as many bytes as the writer put into this name");
		if ((int) IN.k < rd) VASSERT(out[IN.k] == pay[IN.k], "extracted bytes are the payload's bytes");
		if (enc == (size_t) IN.n) VREACH("whole payload in one name");
	}
#else
	{
		size_t space = sizeof(text) - 1;
		int len;
		memset(text, 0, sizeof(text));
		if (DOWNENC == 'S') { text[0] = 's'; len = base64_ops.encode(text + 1, &space, pay, IN.n); }
		else if (DOWNENC == 'U') { text[0] = 'u'; len = base64u_ops.encode(text + 1, &space, pay, IN.n); }
		else if (DOWNENC == 'V') { text[0] = 'v'; len = base128_ops.encode(text + 1, &space, pay, IN.n); }
		else if (DOWNENC == 'R') { text[0] = 'r'; len = IN.n; for (i = 0; i < NPAY; i++) if (i < IN.n) text[1 + i] = pay[i]; }
		else { text[0] = 't'; len = base32_ops.encode(text + 1, &space, pay, IN.n); }
		rd = c09_namedec(out, (int) sizeof(out), text, len + 1);
		VASSERT(rd == IN.n, "client extracts the whole payload from the text answer");
		if ((int) IN.k < rd && (int) IN.k < IN.n) VASSERT(out[IN.k] == pay[IN.k], "extracted bytes are the payload's bytes");
		VREACH("text answer decoded");
	}
#endif
	VREACH("end");
}
#ifdef VREPLAY
int main(void) { harness(); puts("REPLAY-OK"); return 0; }
#endif
