/* C18: tunnel address pool. Real code: user.c init_users(), find_user_by_ip().
 * MODE 1: init_users for symbolic server address and netbits 8..30.
 * MODE 2: find_user_by_ip from an arbitrary user table and clock.
 * libc modelled for CBMC only (native replay uses glibc): snprintf("0.0.0.%d") + inet_addr of that text.
 */
#include "vharness.h"
#include <stdarg.h>
#include <stdio.h>
#include <stdlib.h>
#include <time.h>
#include <arpa/inet.h>
#include "common.h"
#include "encoding.h"
#include "user.h"

extern unsigned usercount;

struct vuser { int active, authenticated, disabled; long last_pkt; uint32_t tun_ip; };
struct vin {
	uint32_t my_ip;		/* network byte order, as the server stores it */
	int netbits;
	unsigned i, j;
	struct vuser u[USERS];
	unsigned count;
	long now;
	uint32_t ip;
};
#ifdef VREPLAY
#include "replay_in.h"
static struct vin IN = VIN_INIT;
#else
struct vin nondet_vin(void);
static struct vin IN;

/* model of the only use: snprintf(buf, 32, "0.0.0.%d", k) followed by inet_addr(buf) */
static int m_last_k = -1;
int snprintf(char *str, size_t size, const char *fmt, ...)
{
	va_list ap;
	__CPROVER_assert(strcmp(fmt, "0.0.0.%d") == 0, "PROP:model: snprintf only used with \"0.0.0.%d\"");
	va_start(ap, fmt);
	m_last_k = va_arg(ap, int);
	va_end(ap);
	if (size > 0) str[0] = '0';
	if (size > 1) str[1] = 0;
	return 8;
}
in_addr_t inet_addr(const char *cp)
{
	(void) cp;
	if (m_last_k < 0 || m_last_k > 255) return INADDR_NONE;
	return htonl((uint32_t) m_last_k);
}
#endif

#ifndef VREPLAY
/* calloc model: zeroed, typed, large enough (checked); avoids a symbolic-size heap object */
static struct tun_user m_pool[USERS];
void *calloc(size_t nmemb, size_t size)
{
	__CPROVER_assert(nmemb <= USERS && size == sizeof(struct tun_user), "PROP:model: calloc(usercount<=16, sizeof(struct tun_user))");
	return m_pool;
}
#endif

time_t time(time_t *t) { if (t) *t = IN.now; return IN.now; }

void harness(void)
{
#ifndef VREPLAY
	IN = nondet_vin();
#endif
#if MODE == 1
	{
		uint32_t mask, me, net, bcast, hi, hj, size;
		int n, want;
		VASSUME(IN.netbits >= 8 && IN.netbits <= 30);
		n = init_users(IN.my_ip, IN.netbits);
		size = (uint32_t) 1 << (32 - IN.netbits);
		want = (size - 3 < USERS) ? (int) (size - 3) : USERS;
		VASSERT(n == want, "number of sessions == min(16, subnet size - 3)");
		VASSERT((unsigned) n == usercount, "returned count is the table size");
		mask = ~(size - 1);
		me = ntohl(IN.my_ip);
		net = me & mask;
		bcast = net | (size - 1);
		VASSUME(IN.i < USERS && IN.j < USERS);
		if (IN.i < (unsigned) n) {
			hi = ntohl(users[IN.i].tun_ip);
			VASSERT((hi & mask) == net, "assigned address lies inside the server's subnet");
			VASSERT(hi != me, "assigned address is not the server's own");
			VASSERT(hi != net, "assigned address is not the network address");
			VASSERT(hi != bcast, "assigned address is not the broadcast address");
			VASSERT(users[IN.i].id == (char) IN.i, "slot id equals its index");
			VASSERT(!users[IN.i].active && !users[IN.i].authenticated && !users[IN.i].authenticated_raw &&
				!users[IN.i].disabled, "fresh slots are inactive and unauthenticated");
			if (IN.j < (unsigned) n && IN.j != IN.i) {
				hj = ntohl(users[IN.j].tun_ip);
				VASSERT(hi != hj, "assigned addresses are pairwise distinct");
			}
			if (IN.netbits == 30) VREACH("/30 subnet");
			if (IN.netbits == 8 && n == 16) VREACH("/8 subnet with 16 users");
			if (IN.i > 0 && hi - 1 == me) VREACH("server address skipped");
		}
	}
#else
	{
		struct tun_user tbl[USERS];	/* uninitialised = unconstrained content */
		int r, want = -1;
		unsigned k;
		VASSUME(IN.count <= USERS);
		for (k = 0; k < USERS; k++) {
			VASSUME(IN.u[k].last_pkt >= 0 && IN.u[k].last_pkt <= IN.now);
			VBIND(tbl[k].active, IN.u[k].active);
			VBIND(tbl[k].authenticated, IN.u[k].authenticated);
			VBIND(tbl[k].disabled, IN.u[k].disabled);
			VBIND(tbl[k].last_pkt, IN.u[k].last_pkt);
			VBIND(tbl[k].tun_ip, IN.u[k].tun_ip);
		}
		VASSUME(IN.now >= 0 && IN.now < 0x7fffffff);
		users = tbl;
		usercount = IN.count;
		r = find_user_by_ip(IN.ip);
		for (k = 0; k < USERS; k++) {
			if (k < IN.count && want < 0 && IN.u[k].active && IN.u[k].authenticated && !IN.u[k].disabled &&
			    IN.u[k].last_pkt + 60 > IN.now && IN.u[k].tun_ip == IN.ip)
				want = (int) k;
		}
		VASSERT(r == want, "lookup returns exactly the live logged-in session owning the address, else -1");
		if (r > 0) VREACH("found a later slot");
		if (r == -1) VREACH("not found");
	}
#endif
	VREACH("end");
}
#ifdef VREPLAY
int main(void) { harness(); puts("REPLAY-OK"); return 0; }
#endif
