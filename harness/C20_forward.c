/* C20 (b): forwarding of non-tunnel queries and routing of their replies.
 * Real code: iodined.c forward_query(), tunnel_bind() (statics), fw_query.c, dns.c dns_encode, read.c.
 * MODE 1: forward_query for a symbolic legal name/id/type/requester -> relayed datagram parsed by
 *         the strict oracle: same id, name, type; sent to 127.0.0.1:bind_port; requester remembered.
 * MODE 2: tunnel_bind: arbitrary reply bytes after f forwards -> relayed unchanged to the stored
 *         requester of that id, or dropped.
 */
#ifndef FAM6
#define FAM6 0
#endif
#define VS_NOW IN.now
#define VS_RAND 4
#ifndef NAMEMAX
#define NAMEMAX 20
#endif
#define REPLYMAX 32
#define VS_CAP (NAMEMAX + 32)
#define RM_MAXLAB (NAMEMAX / 2 + 1)
#define RM_MAXLABLEN NAMEMAX
#define RM_NOPTR
#define RM_MAXRR 1
#define RM_MAXMSG 96
#include <stdint.h>
struct vfwd { unsigned short id; unsigned char fam6; unsigned char addr[16]; unsigned short port; };
struct vin {
	long now;
	char name[NAMEMAX + 1];
	unsigned short id, type;
	unsigned char fam6;
	unsigned char addr[16];
	unsigned short port, bind_port;
	unsigned nf;
	struct vfwd f[3];
	unsigned char reply[REPLYMAX];
	int rlen;
	unsigned k;
};
#ifdef VREPLAY
#include "replay_in.h"
static struct vin IN = VIN_INIT;
#else
struct vin nondet_vin(void);
static struct vin IN;
#endif
#include "vserver.h"
#include "vdnsref.h"

ssize_t read_tun(int fd, char *buf, size_t len) { (void) fd; (void) buf; (void) len; return 0; }
int write_tun(int fd, char *data, size_t len) { (void) fd; (void) data; (void) len; return 0; }

static int legal_name(const char *s)
{
	int i, cur = 0, n = 0;
	for (i = 0; s[i]; i++) {
		n++;
		if (s[i] == '.') { if (cur == 0) return 0; cur = 0; }
		else if (++cur > 63) return 0;
	}
	return n >= 1 && cur > 0;
}

static void set_from(struct query *q, int fam6, const unsigned char *addr, unsigned short port)
{
	memset(&q->from, 0, sizeof(q->from));
	if (fam6) {
		struct sockaddr_in6 *a = (struct sockaddr_in6 *) &q->from;
		a->sin6_family = AF_INET6;
		a->sin6_port = port;
		memcpy(&a->sin6_addr, addr, 16);
		q->fromlen = sizeof(*a);
	} else {
		struct sockaddr_in *a = (struct sockaddr_in *) &q->from;
		a->sin_family = AF_INET;
		a->sin_port = port;
		memcpy(&a->sin_addr, addr, 4);
		q->fromlen = sizeof(*a);
	}
}

/* reply delivered by the recvfrom stub (MODE 2) */
ssize_t recvfrom(int fd, void *buf, size_t len, int flags, struct sockaddr *from, socklen_t *fromlen)
{
	(void) fd; (void) flags; (void) from; (void) fromlen;
	if (IN.rlen <= 0) return IN.rlen;
	if ((size_t) IN.rlen > len) return -1;
	{
		int i;
		for (i = 0; i < REPLYMAX; i++)
			if (i < IN.rlen) ((unsigned char *) buf)[i] = IN.reply[i];
	}
	return IN.rlen;
}

void harness(void)
{
	struct query q;
	struct dnsfd fds = { 3, 4 };
#ifndef VREPLAY
	IN = nondet_vin();
#endif
	fw_query_init();
	bind_port = IN.bind_port;
	debug = 0;
#if MODE == 1
	{
		struct rm_msg m;
		struct fw_query *fq;
		struct sockaddr_in *to;
		VASSUME(IN.name[NAMEMAX] == 0);
		VASSUME(legal_name(IN.name));
		memset(&q, 0, sizeof(q));
		strcpy(q.name, IN.name);
		q.id = IN.id;
		q.type = IN.type;
		/* requester family is a cell parameter (-DFAM6): forward_query memcpy()s q->fromlen bytes and a
		 * symbolic-length memcpy is over-approximated by CBMC */
		set_from(&q, FAM6, IN.addr, IN.port);
		forward_query(7, &q);
		VASSERT(vs_nsent == 1, "exactly one datagram is relayed");
		VASSERT(vs_sent[0].fd == 7, "relayed on the forwarding socket");
		VASSERT(vs_sent[0].len <= VS_CAP, "relayed query fits the recorder");
		VASSERT(rm_parse(vs_sent[0].data, (unsigned) vs_sent[0].len, &m) == 0, "relayed query is a well-formed DNS message");
		VASSERT(m.id == IN.id, "relayed query keeps the id");
		VASSERT(rm_streq(m.qname, IN.name), "relayed query keeps the name");
		VASSERT(m.qtype == IN.type && m.qclass == 1, "relayed query keeps the type (class IN)");
		VASSERT((m.flags & 0x8000) == 0, "relayed message is a query");
		to = (struct sockaddr_in *) &vs_sent[0].to;
		VASSERT(to->sin_family == AF_INET && to->sin_addr.s_addr == htonl(0x7f000001u) && to->sin_port == htons(IN.bind_port),
			"relayed to 127.0.0.1:<dnsport>");
		fw_query_get(IN.id, &fq);
		VASSERT(fq != NULL && fq->id == IN.id, "requester is remembered under the id");
#if !FAM6
		if (fq) {
			struct sockaddr_in *ra = (struct sockaddr_in *) &fq->addr;
			VASSERT(ra->sin_family == AF_INET && memcmp(&ra->sin_addr, IN.addr, 4) == 0 && ra->sin_port == IN.port &&
				fq->addrlen == (int) sizeof(struct sockaddr_in), "remembered address is the IPv4 requester");
			VREACH("ipv4 requester");
		}
#else
		if (fq) {
			struct sockaddr_in6 *ra = (struct sockaddr_in6 *) &fq->addr;
			VASSERT(ra->sin6_family == AF_INET6 && memcmp(&ra->sin6_addr, IN.addr, 16) == 0 && ra->sin6_port == IN.port,
				"remembered address is the IPv6 requester");
			VREACH("ipv6 requester");
		}
#endif
	}
#else
	{
		unsigned j, c = 0, hit = 0;
		unsigned short rid;
		VASSUME(IN.nf <= 3);
		for (j = 0; j < 3; j++) {
			struct fw_query f;
			if (j >= IN.nf) break;
			memset(&f, 0, sizeof(f));
			memset(&q, 0, sizeof(q));
			set_from(&q, IN.f[j].fam6 & 1, IN.f[j].addr, IN.f[j].port);
			f.addr = q.from;	/* whole-struct copy: a symbolic-length memcpy is havoc'ed by CBMC */
			f.addrlen = (int) q.fromlen;
			f.id = IN.f[j].id;
			VASSUME(f.id != 0);
			fw_query_put(&f);
		}
		VASSUME(IN.rlen >= -1 && IN.rlen <= REPLYMAX);
		tunnel_bind(7, &fds);
		rid = IN.rlen >= 12 ? (unsigned short) ((IN.reply[0] << 8) | IN.reply[1]) : 0;
		for (j = 0; j < 3; j++)
			if (j < IN.nf && IN.rlen >= 12 && IN.f[j].id == rid) { c++; hit = j; }
		if (IN.rlen < 12 || c == 0) {
			/* short replies have id 0 by definition of dns_get_id; ids are non-zero here */
			VASSERT(vs_nsent == 0 || (rid == 0 && vs_sent[0].tolen == 0), "reply with unknown id is sent to no requester");
			if (IN.rlen >= 12) VREACH("unknown id dropped");
		} else {
			VASSERT(vs_nsent == 1, "known id: exactly one datagram relayed back");
			VASSERT(vs_sent[0].len == IN.rlen, "reply relayed with unchanged length");
			VASSUME(IN.k < REPLYMAX);
			if ((int) IN.k < IN.rlen)
				VASSERT(vs_sent[0].data[IN.k] == IN.reply[IN.k], "reply bytes relayed unchanged");
			if (c == 1) {
				struct vfwd sel = IN.f[0];	/* select with constant indices (pointers into IN.f[symbolic] are imprecise) */
				if (hit == 1) sel = IN.f[1];
				if (hit == 2) sel = IN.f[2];
				memset(&q, 0, sizeof(q));
				set_from(&q, sel.fam6 & 1, sel.addr, sel.port);
				VASSERT(vs_sent[0].tolen == q.fromlen, "reply destination has the requester's address length");
				VASSERT(vs_sent[0].to.ss_family == q.from.ss_family, "reply destination has the requester's family");
				if (sel.fam6 & 1) {
					struct sockaddr_in6 *x = (struct sockaddr_in6 *) &vs_sent[0].to;
					VASSERT(x->sin6_port == sel.port && memcmp(&x->sin6_addr, sel.addr, 16) == 0,
						"reply goes to the IPv6 requester that forwarded this id");
				} else {
					struct sockaddr_in *x = (struct sockaddr_in *) &vs_sent[0].to;
					VASSERT(x->sin_port == sel.port && memcmp(&x->sin_addr, sel.addr, 4) == 0,
						"reply goes to the IPv4 requester that forwarded this id");
				}
				VASSERT(vs_sent[0].fd == ((sel.fam6 & 1) ? 4 : 3), "reply leaves through the socket of the requester's family");
				VREACH("reply routed to unique requester");
			}
		}
	}
#endif
	VREACH("end");
}
#ifdef VREPLAY
int main(void) { harness(); puts("REPLAY-OK"); return 0; }
#endif
