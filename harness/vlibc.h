/* libc models for the CBMC build only (native replay links the real glibc).
 * Each model is part of the trusted base and is listed in the evidence assumptions.
 * Include after the system headers of the unit under test. */
#ifndef VLIBC_H
#define VLIBC_H
#ifndef VREPLAY
#include <string.h>
#include <stddef.h>

static int vl_isdelim(char c, const char *delim)
{
	size_t i;
	for (i = 0; delim[i]; i++)
		if (delim[i] == c) return 1;
	return 0;
}
static char *vl_tok_save;
/* strtok: ISO C semantics */
char *strtok(char *s, const char *delim)
{
	char *tok;
	if (s == NULL) s = vl_tok_save;
	if (s == NULL) return NULL;
	while (*s && vl_isdelim(*s, delim)) s++;
	if (!*s) { vl_tok_save = NULL; return NULL; }
	tok = s;
	while (*s && !vl_isdelim(*s, delim)) s++;
	if (*s) { *s = 0; vl_tok_save = s + 1; } else vl_tok_save = NULL;
	return tok;
}
/* strdup: fixed-size allocation (a heap object of symbolic size is very expensive for the solver);
 * faithful as long as the string fits, which is asserted */
#ifndef VL_STRDUP_MAX
#define VL_STRDUP_MAX 256
#endif
#include <stdlib.h>
char *strdup(const char *s)
{
	char *d = malloc(VL_STRDUP_MAX);
	size_t i;
	for (i = 0; i < VL_STRDUP_MAX; i++) {
		d[i] = s[i];
		if (!s[i]) return d;
	}
	__CPROVER_assert(0, "PROP:model: strdup argument fits VL_STRDUP_MAX");
	return d;
}
static int vl_lower(int c) { return (c >= 'A' && c <= 'Z') ? c + ('a' - 'A') : c; }
int strcasecmp(const char *a, const char *b)
{
	size_t i;
	for (i = 0;; i++) {
		int ca = vl_lower((unsigned char) a[i]), cb = vl_lower((unsigned char) b[i]);
		if (ca != cb) return ca - cb;
		if (!ca) return 0;
	}
}
#endif
#endif
