/* C08: upstream query names. Real code: encoding.c build_hostname()/inline_dotify()/unpack_data()/inline_undotify(),
 * the codec unit of the cell, common.c query_datalen().
 * The name is built exactly as client.c does it (send_chunk: buf+5, 5 header chars; send_packet: buf+1, command char),
 * then taken apart exactly as iodined.c does it (query_datalen, copy of the data part into in[], unpack_data(in+hdr)).
 * Symbolic: hostname limit L, domain length T, payload length n and every payload byte; cell: codec, header size.
 * Oracle (from the statement): strlen <= L, <= 253 (255 on the wire), labels 1..63, ends in "."+domain,
 * 1 <= consumed <= n, server extraction == payload[0..consumed).
 */
#include <stdint.h>
#include <stddef.h>
#include <string.h>
#include <stdlib.h>
#include "vharness.h"
#include "common.h"
#include "encoding.h"
#ifndef SP
#define SP 120		/* bound on the encoder's space (= L - T - 8) */
#endif
#ifndef NP
#define NP 108		/* payload bytes */
#endif
#ifndef HDR
#define HDR 5
#endif
struct vin {
	int L, T, n;
	unsigned char data[NP];
	unsigned k;
	char hdrc[5];
};
#ifdef VREPLAY
#include "replay_in.h"
static struct vin IN = VIN_INIT;
#else
struct vin nondet_vin(void);
static struct vin IN;
#endif
#ifndef VREPLAY
void warnx(const char *fmt, ...) { (void) fmt; }
#endif

void harness(void)
{
	static char buf[320], dom[132], in[320], unp[320], pay[NP + 1];
	const struct encoder *enc = &OPS;
	int i, len, consumed, dlen, rd, cur, labels_ok = 1;
#ifndef VREPLAY
	IN = nondet_vin();
#endif
#ifdef LCELL
	/* cell: concrete hostname limit and domain length (chosen around the dot-arithmetic edges); payload symbolic */
	IN.L = LCELL; IN.T = TCELL;
#endif
	VASSUME(IN.L >= 100 && IN.L <= 255);
	VASSUME(IN.T >= 3 && IN.T <= 128 && IN.T <= IN.L - 24);
	VASSUME(IN.L - IN.T - 8 <= SP);
#ifdef CONCRETE_N
	IN.n = NP;	/* filled-to-capacity cells: fully concrete input, symex folds the whole run (degenerate query) */
#endif
	VASSUME(IN.n >= 1 && IN.n <= NP);
	/* a valid tunnel domain of length T: labels of 1..2 letters */
	for (i = 0; i < 128; i++) dom[i] = (i < IN.T) ? ((i & 1) ? '.' : 'd') : 0;
	if (!(IN.T & 1)) dom[IN.T - 1] = 'd';
	dom[128] = 0;
#ifdef CONCRETE_PAYLOAD
	/* shape cells: the name's shape (lengths, dots, consumed count) does not depend on the payload bytes; a fixed
	 * byte pattern lets symex fold the codec, the payload length stays symbolic */
	for (i = 0; i < NP; i++) pay[i] = (char) (0xA5 ^ (i * 37));
#else
	for (i = 0; i < NP; i++) pay[i] = (char) IN.data[i];
#endif
	memset(buf, 0, sizeof(buf));
	consumed = build_hostname(buf + HDR, sizeof(buf) - HDR, pay, (size_t) IN.n, dom, enc, IN.L);
	/* header characters as the client writes them: non-dot, non-NUL */
	for (i = 0; i < HDR; i++) { VASSUME(IN.hdrc[i] != 0 && IN.hdrc[i] != '.'); buf[i] = IN.hdrc[i]; }
	buf[319] = 0;
	len = (int) strlen(buf);
	VASSERT(len <= IN.L, "name length within the configured limit");
	VASSERT(len <= 253, "name fits 255 bytes on the wire");
	VASSERT(consumed >= 1 && consumed <= IN.n, "a non-empty prefix of the payload is carried");
	/* labels 1..63 */
	cur = 0;
	for (i = 0; i < 256; i++) {
		if (i >= len) break;
		if (buf[i] == '.') { if (cur == 0) labels_ok = 0; cur = 0; }
		else if (++cur > 63) labels_ok = 0;
	}
	VASSERT(labels_ok && cur > 0, "every label has 1..63 bytes");
	VASSERT(len > IN.T + 1 && buf[len - IN.T - 1] == '.', "data part and domain are separated by a dot");
	VASSUME(IN.k < 128);
	if ((int) IN.k < IN.T) VASSERT(buf[len - IN.T + (int) IN.k] == dom[IN.k], "name ends in the tunnel domain");
	/* server side */
	dlen = query_datalen(buf, dom);
	VASSERT(dlen == len - IN.T, "server locates the data part right before the domain");
	if (dlen == len - IN.T) {
		for (i = 0; i < 256; i++) in[i] = (i < dlen) ? buf[i] : (char) 0x7e;	/* residue beyond the data part, as in[] has */
		rd = unpack_data(unp, sizeof(unp), in + HDR, (size_t) (dlen - HDR), enc);
		VASSERT(rd == consumed, "server decodes exactly as many bytes as the builder reported");
		VASSUME(IN.k < NP);
		if ((int) IN.k < consumed && rd == consumed)
			VASSERT(unp[IN.k] == pay[IN.k], "server extraction equals the payload prefix");
#ifdef CONCRETE_N
		if (consumed < IN.n) VREACH("name filled to capacity");
#else
		if (consumed == IN.n) VREACH("whole payload carried");
#endif
	}
	VREACH("end");
}
#ifdef VREPLAY
int main(void) { harness(); puts("REPLAY-OK"); return 0; }
#endif
