/* C09 client-side unit: the real src/client.c with a non-static entry to its static dns_namedec(). */
#include "vharness.h"
#include "client.c"
int c09_namedec(char *outdata, int outdatalen, char *buf, int buflen)
{
	return dns_namedec(outdata, outdatalen, buf, buflen);
}
