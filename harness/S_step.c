/* S_step.c: one step of the real iodine server from an arbitrary valid state (inductive lemmas).
 * Real code: src/iodined.c (textually included: all statics reachable) + user.c, encoding.c, codecs,
 * common.c; dns_decode/dns_encode are not on these paths (the answer is observed at the
 * VERIF_WRITE_DNS_HOOK at the top of write_dns(); the wire format is C09/C10's subject).
 *
 * MODE 1  handle_null_request(q) for one command-letter cell (-DCMDCH / -DCMD_OTHER / -DCMD_HEXREST)
 *         and one userid cell (-DUIDCELL=0..NU-1, or -DUID_OUT for "no valid slot named")
 * MODE 2  raw_decode(frame)   (raw login / data / ping / junk), same userid cells
 * MODE 3  tunnel_tun()        (packet from the tun device, arbitrary bytes)
 * MODE 4  main-loop sweep body: send_chunk_or_dataless() for q_sendrealsoon of slot UIDCELL
 * MODE 5  two steps: request X, then re-delivery X' of the same question (C16)
 *
 * Pre-state: NU slots, every field arbitrary subject to the representation invariant inv_user()
 * (re-asserted on the post-state: inductive).  Assertion groups are enabled with -DG_<name>:
 *   G_INV   invariant preserved                                   (C05; induction base for all others)
 *   G_AUTH  authentication / source check / slot ownership lemmas (C03, C04)
 *   G_ANS   answers are solicited, at most once, held queries are never lost (C14)
 *   G_FRAG  downstream fragment size / numbering / last flag      (C15)
 *   G_DUP   re-delivery lemmas                                    (C16)
 */
#ifndef NU
#define NU 2
#endif
#ifndef NL
#define NL 24			/* bound on query name length (chars) incl. the tunnel domain */
#endif
#ifndef MODE
#define MODE 1
#endif
#ifndef AFLEN
#define AFLEN 16
#endif
#define AFLEN_IS16 (AFLEN == 16)
#ifndef QPOS
#define QPOS 0
#endif
#ifndef DPOS
#define DPOS 0
#endif
#ifndef MPOS
#define MPOS 0
#endif
#ifndef QSEL
#define QSEL 0
#endif
#ifndef RAWCMD
#define RAWCMD 0x10
#endif
#ifndef RAWHDR_OK
#define RAWHDR_OK 1
#endif
#define VS_MAXSENT 2
#define VS_CAP 48
#define VS_DCAP 8		/* answer payload bytes recorded */
#define VS_MAXANS 8
#define RAWMAX 40		/* raw frame bytes */
#define TUNMAX 40		/* tun packet bytes */

#include <stdint.h>
#include <string.h>
#include <stdlib.h>
#include <stdio.h>
#include <strings.h>
#include "vharness.h"
#include <sys/types.h>
#include <sys/socket.h>
#include <netinet/in.h>
#include <arpa/inet.h>
#include <time.h>
#include "common.h"
#include "encoding.h"
#include "user.h"

struct vin {
	long now, now2;
	unsigned tswitch;
	int rnd;
	int check_ip;
	struct tun_user u[NU];
	unsigned char enc[NU];
	struct query q;
	int domain_len;
	char hash[2][16];
	char password[33];
	unsigned my_ip, ns_ip;
	int my_mtu, netmask;
	char ntoa[2][16];
	int snplen;
	/* zlib stubs */
	int zret; unsigned long zlen; unsigned char zout[8]; unsigned zdst;
	/* tun */
	int tunlen; unsigned char tun[TUNMAX];
	/* raw frame */
	int rawlen; char raw[RAWMAX];
	/* nondet inspection indices */
	unsigned kf, kn, kd, ku;
#ifdef STUB_SC
	struct vsc { struct tun_user t; int ret; int d; unsigned char pk[VS_DCAP]; } sc[4];
#endif
	int qsel;
	/* second query for two-step cells */
	unsigned short id_b;
	unsigned caseflip;
};
#ifdef VREPLAY
#include "replay_in.h"
static struct vin IN = VIN_INIT;
#else
struct vin nondet_vin(void);
static struct vin IN;
#endif

static int vs_tcalls;
static long vs_time(void) { return (unsigned) vs_tcalls++ < IN.tswitch ? IN.now : IN.now2; }
#define VS_NOW vs_time()
#define VS_RAND (IN.rnd & 0x7fffffff)

/* ---- observation of answers (hook at the top of write_dns) ---- */
struct vs_ans {
	int fd;
	int slot;			/* 0 = the incoming query object, 1+2i = users[i].q, 2+2i = users[i].q_sendrealsoon */
	int src;			/* which received query this answers (vs_classify), <0: none */
	unsigned short id;
	int datalen;
	char downenc;
	unsigned char d[VS_DCAP];
};
static struct vs_ans vs_ans[VS_MAXANS];
static int vs_nans;
static struct query *vs_inq;		/* the incoming query object of this step */
static int vs_hook(int fd, struct query *q, const char *data, int datalen, char downenc);
#define VERIF_WRITE_DNS_HOOK(fd, q, data, datalen, downenc) vs_hook(fd, q, data, datalen, downenc)

/* cell = one concrete first character (command letter) ... */
#ifndef CMDCH
#error "CMDCH (first character of the request) is a cell parameter"
#endif
#define VERIF_DISPATCH_HINT(in, q, domain_len) VHINT_EQ((in)[0], CMDCH)
/* ... x one concrete slot number derived from the request (in range: the acting slot; out of range: representatives) */
#ifndef UIDCELL
#define UIDCELL (-1)
#endif
#define VERIF_USERID_HINT(userid) VHINT_EQ(userid, UIDCELL)
/* destination slot of a packet (find_user_by_ip result): one value per cell, -1 = no session owns the address */
#ifndef TOCELL
#define TOCELL (-1)
#endif
#define VERIF_TOUSER_HINT(touser) VHINT_EQ(touser, TOCELL)
#define ACT ((UIDCELL) >= 0 && (UIDCELL) < NU ? (UIDCELL) : -1)
#define ACT_VALID ((UIDCELL) >= 0 && (UIDCELL) < NU)
#define IS_CMD(c) (CMDCH == (c) || CMDCH == ((c) ^ 0x20))
#define IS_HEXCMD ((CMDCH >= '0' && CMDCH <= '9') || (CMDCH >= 'a' && CMDCH <= 'f') || (CMDCH >= 'A' && CMDCH <= 'F'))
#define IS_KNOWN (IS_HEXCMD || IS_CMD('V') || IS_CMD('L') || IS_CMD('I') || IS_CMD('Z') || IS_CMD('S') || IS_CMD('O') || IS_CMD('Y') || \
	IS_CMD('R') || IS_CMD('N') || IS_CMD('P'))

/* login_calculate: uninterpreted 16 bytes per call in the dispatcher cells (the real one is C19's subject) */
static int vs_lc_calls, vs_lc_seed[2];
static const char *vs_lc_pass[2];
void vs_login_calculate(char *buf, int buflen, const char *pass, int seed)
{
	int i, c = vs_lc_calls < 2 ? vs_lc_calls : 1;
	vs_lc_seed[c] = seed; vs_lc_pass[c] = pass;
	vs_lc_calls++;
	if (buflen < 16) return;
	for (i = 0; i < 16; i++) buf[i] = IN.hash[c][i];
}
#define login_calculate vs_login_calculate

/* memcpy in iodined.c: CBMC turns a memcpy()/pointer write into a field of struct tun_user into a byte_update of the
 * whole enclosing object (tens of GB here). The scratch copy of iodined.c therefore has every memcpy *statement* rewritten
 * (jobs.py memcpy_inline, substitutions counted in the evidence) into one of these statement macros, which perform the
 * same copy on typed lvalues at the call site:
 *   VS_CP_QUERY  n == sizeof(struct query)           -> struct assignment
 *   VS_CP_SS     socket address, n == q->fromlen(2)  -> family + first n-2 payload bytes
 *   VS_CP_BYTES  everything else                     -> element loop */
#define VS_CP_QUERY(d, s) do { *(d) = *(s); } while (0)
#define VS_CP_SS(d, s, n) do { size_t i_, n_ = (size_t) (n); (d)->ss_family = (s)->ss_family; \
	for (i_ = 0; i_ + 2 < n_; i_++) (d)->__ss_padding[i_] = (s)->__ss_padding[i_]; } while (0)
#define VS_CP_BYTES(d, s, n) do { size_t i_, n_ = (size_t) (n); \
	for (i_ = 0; i_ < n_; i_++) ((char *) (d))[i_] = ((const char *) (s))[i_]; } while (0)
#ifdef STUB_SC
/* lemma decomposition: in the dispatcher cells send_chunk_or_dataless() is replaced by its contract (below);
 * the real function is checked against that contract in MODE 4 (the scratch copy renames the real definition) */
static int send_chunk_or_dataless(int dns_fd, int userid, struct query *q);
#endif
#include "vserver.h"

/* ---- environment ---- */
static int vs_tunwrites; static size_t vs_tunlen; static unsigned char vs_tunk;
int write_tun(int fd, char *data, size_t len)
{
	(void) fd;
	vs_tunwrites++; vs_tunlen = len;
	if (len > 0) vs_tunk = (unsigned char) data[len - 1];
	return 0;
}
ssize_t read_tun(int fd, char *buf, size_t len)
{
	int i;
	(void) fd;
	if (IN.tunlen <= 0) return IN.tunlen;
	VASSUME(IN.tunlen <= TUNMAX && (size_t) IN.tunlen <= len);
	for (i = 0; i < TUNMAX; i++)
		if (i < IN.tunlen) buf[i] = (char) IN.tun[i];
	return IN.tunlen;
}
/* zlib: arbitrary result code; on success an arbitrary output of arbitrary length <= capacity */
static int vs_unc_calls; static const unsigned char *vs_unc_src; static unsigned long vs_unc_srclen;
int uncompress(unsigned char *dest, unsigned long *destLen, const unsigned char *src, unsigned long srcLen)
{
	unsigned i;
	vs_unc_calls++; vs_unc_src = src; vs_unc_srclen = srcLen;
	if (IN.zret != 0) return IN.zret;
	VASSUME(IN.zlen <= *destLen && IN.zlen <= 64);
	*destLen = IN.zlen;
	/* the 4-byte tun header + IP header: destination address bytes (offset 4+16..4+19) arbitrary */
	for (i = 0; i < 4; i++) dest[20 + i] = ((unsigned char *) &IN.zdst)[i];
	for (i = 0; i < 8; i++) dest[i] = IN.zout[i];
	return 0;
}
int compress2(unsigned char *dest, unsigned long *destLen, const unsigned char *src, unsigned long srcLen, int level)
{
	unsigned i;
	(void) src; (void) srcLen; (void) level;
	VASSUME(IN.zlen <= *destLen && IN.zlen <= 64);
	*destLen = IN.zlen;
	for (i = 0; i < 8; i++) dest[i] = IN.zout[i];
	return 0;
}
#ifndef VREPLAY
char *inet_ntoa(struct in_addr in)
{
	static char b[2][16];
	static int w;
	int i;
	(void) in;
	w ^= 1;
	for (i = 0; i < 15; i++) b[w][i] = IN.ntoa[w][i];
	b[w][15] = 0;
	return b[w];
}
/* the one snprintf on these paths formats the login answer for an authenticated session: arbitrary text */
int snprintf(char *s, size_t n, const char *fmt, ...)
{
	(void) fmt;
	VASSUME(IN.snplen >= 7 && IN.snplen <= 40 && (size_t) IN.snplen < n);
	s[IN.snplen] = 0;
	return IN.snplen;
}
#endif

extern unsigned usercount;
static const struct encoder *vs_encs[4];

/* ---- representation invariant of one slot ---- */
/* socket address length: one value per cell (16 = IPv4 socket, 28 = IPv6 socket) for every stored and incoming
 * address; memcpy() with a symbolic length is prohibitively expensive in CBMC. Mixed states are outside the bound. */
static int inv_query(const struct query *q)
{
	return q->name[NL] == 0 && q->fromlen == AFLEN && q->fromlen2 == AFLEN;
}
/* post-state form: fromlen2 is only ever read while id2 != 0 (send_chunk_or_dataless), so it is unconstrained otherwise
 * (the server stores whatever the caller's uninitialised struct query held) */
static int inv_query_post(const struct query *q)
{
	return q->name[NL] == 0 && q->fromlen == AFLEN && (q->id2 == 0 || q->fromlen2 == AFLEN);
}
static int inv_packet(const struct packet *p)
{
	return p->len >= 0 && p->len <= (int) sizeof(p->data) && p->offset >= 0 && p->offset <= (int) sizeof(p->data) &&
	       p->sentlen >= 0 && p->seqno >= 0 && p->seqno <= 7 && p->fragment >= 0 && p->fragment <= (int) sizeof(p->data);
}
static int inv_user_x(const struct tun_user *u, int post)
{
	int i, ok = 1;
	ok = ok && (u->active == 0 || u->active == 1) && (u->authenticated == 0 || u->authenticated == 1);
	ok = ok && (u->authenticated_raw == 0 || u->authenticated_raw == 1) && (u->options_locked == 0 || u->options_locked == 1);
	ok = ok && (u->disabled == 0 || u->disabled == 1);
	ok = ok && u->last_pkt >= 0 && u->last_pkt < 0x7fffffffL;
	ok = ok && u->hostlen == AFLEN;
	ok = ok && (post ? inv_query_post(&u->q) && inv_query_post(&u->q_sendrealsoon) : inv_query(&u->q) && inv_query(&u->q_sendrealsoon));
	ok = ok && (u->q_sendrealsoon_new == 0 || u->q_sendrealsoon_new == 1);
	ok = ok && inv_packet(&u->inpacket) && inv_packet(&u->outpacket);
	/* upstream reassembly: fill level == write position; downstream: position inside the packet */
	ok = ok && u->inpacket.len == u->inpacket.offset && u->inpacket.fragment <= 15;
	ok = ok && (u->outpacket.len > 0 ? (u->outpacket.offset < u->outpacket.len &&
					       u->outpacket.sentlen <= u->outpacket.len - u->outpacket.offset)
					    : (u->outpacket.offset == 0 && u->outpacket.sentlen == 0));
	ok = ok && u->outfragresent >= 0 && u->outfragresent <= 7;
	ok = ok && (u->encoder == vs_encs[0] || u->encoder == vs_encs[1] || u->encoder == vs_encs[2] || u->encoder == vs_encs[3]);
	ok = ok && (u->downenc == 'T' || u->downenc == 'S' || u->downenc == 'U' || u->downenc == 'V' || u->downenc == 'R');
	ok = ok && u->fragsize >= 2 && u->fragsize <= 65535;
	ok = ok && (u->conn == CONN_RAW_UDP || u->conn == CONN_DNS_NULL) && (u->lazy == 0 || u->lazy == 1);
	ok = ok && u->qmemping_lastfilled >= 0 && u->qmemping_lastfilled < QMEMPING_LEN;
	ok = ok && u->qmemdata_lastfilled >= 0 && u->qmemdata_lastfilled < QMEMDATA_LEN;
	ok = ok && u->outpacketq_nexttouse >= 0 && u->outpacketq_nexttouse < OUTPACKETQ_LEN;
	ok = ok && u->outpacketq_filled >= 0 && u->outpacketq_filled <= OUTPACKETQ_LEN;
	for (i = 0; i < OUTPACKETQ_LEN; i++)
		ok = ok && u->outpacketq[i].len >= 0 && u->outpacketq[i].len <= (int) sizeof(u->outpacketq[i].data);
	ok = ok && u->dnscache_lastfilled >= 0 && u->dnscache_lastfilled < DNSCACHE_LEN;
	for (i = 0; i < DNSCACHE_LEN; i++)
		ok = ok && u->dnscache_answerlen[i] >= 0 && u->dnscache_answerlen[i] <= (int) sizeof(u->dnscache_answer[i]) &&
		     u->dnscache_q[i].name[NL] == 0;
	return ok;
}

static int inv_user(const struct tun_user *u) { return inv_user_x(u, 0); }

/* nondet-index comparison of two slot records: all scalars, one arbitrary element of every array */
/* socket addresses are compared through the sockaddr_in6 overlay (28 bytes = the longest address the server stores);
 * a byte-wise comparison at a symbolic offset costs CBMC ~1 GB per use */
static int same_addr(const struct sockaddr_storage *a, const struct sockaddr_storage *b)
{
	const struct sockaddr_in6 *x = (const struct sockaddr_in6 *) a, *y = (const struct sockaddr_in6 *) b;
	/* the first AFLEN bytes: the server copies and uses exactly that many */
	int ok = x->sin6_family == y->sin6_family && x->sin6_port == y->sin6_port && x->sin6_flowinfo == y->sin6_flowinfo;
#if AFLEN == 16
	return ok && x->sin6_addr.s6_addr[IN.kf & 7] == y->sin6_addr.s6_addr[IN.kf & 7];
#else
	return ok && x->sin6_scope_id == y->sin6_scope_id && x->sin6_addr.s6_addr[IN.kf & 15] == y->sin6_addr.s6_addr[IN.kf & 15];
#endif
}
static int same_query(const struct query *a, const struct query *b)
{
	unsigned kn = IN.kn;
	return a->name[kn] == b->name[kn] && a->type == b->type && a->rcode == b->rcode && a->id == b->id &&
	       a->fromlen == b->fromlen && a->id2 == b->id2 && a->fromlen2 == b->fromlen2 && a->dest_len == b->dest_len &&
	       same_addr(&a->from, &b->from) && same_addr(&a->from2, &b->from2) && same_addr(&a->destination, &b->destination);
}
static int same_packet(const struct packet *a, const struct packet *b)
{
	return a->len == b->len && a->sentlen == b->sentlen && a->offset == b->offset && a->seqno == b->seqno &&
	       a->fragment == b->fragment && a->data[IN.kd] == b->data[IN.kd];
}
/* session settings + credentials */
static int same_settings(const struct tun_user *a, const struct tun_user *b)
{
	return a->active == b->active && a->authenticated == b->authenticated && a->authenticated_raw == b->authenticated_raw &&
	       a->options_locked == b->options_locked && a->disabled == b->disabled && a->seed == b->seed && a->tun_ip == b->tun_ip &&
	       a->hostlen == b->hostlen && same_addr(&a->host, &b->host) &&
	       a->encoder == b->encoder && a->downenc == b->downenc && a->fragsize == b->fragsize && a->conn == b->conn &&
	       a->lazy == b->lazy;
}
/* stream positions and buffers */
static int same_streams(const struct tun_user *a, const struct tun_user *b)
{
	int c, ok;
	ok = same_packet(&a->inpacket, &b->inpacket) && same_packet(&a->outpacket, &b->outpacket) &&
	       a->outfragresent == b->outfragresent && a->outpacketq_nexttouse == b->outpacketq_nexttouse &&
	       a->outpacketq_filled == b->outpacketq_filled;
	for (c = 0; c < OUTPACKETQ_LEN; c++)
		ok = ok && a->outpacketq[c].len == b->outpacketq[c].len && a->outpacketq[c].data[IN.kd] == b->outpacketq[c].data[IN.kd];
	return ok;
}
static int same_memory(const struct tun_user *a, const struct tun_user *b)
{
	unsigned j = IN.ku, kd = IN.kd % sizeof(a->dnscache_answer[0]);
	int c, ok;
	ok = a->qmemping_lastfilled == b->qmemping_lastfilled && a->qmemdata_lastfilled == b->qmemdata_lastfilled &&
	       a->qmemping_cmc[j % (QMEMPING_LEN * 4)] == b->qmemping_cmc[j % (QMEMPING_LEN * 4)] &&
	       a->qmemping_type[j % QMEMPING_LEN] == b->qmemping_type[j % QMEMPING_LEN] &&
	       a->qmemdata_cmc[j % (QMEMDATA_LEN * 4)] == b->qmemdata_cmc[j % (QMEMDATA_LEN * 4)] &&
	       a->qmemdata_type[j % QMEMDATA_LEN] == b->qmemdata_type[j % QMEMDATA_LEN] &&
	       a->dnscache_lastfilled == b->dnscache_lastfilled;
	/* constant indices into the arrays of structs (a symbolic struct index defeats CBMC's field sensitivity) */
	for (c = 0; c < DNSCACHE_LEN; c++)
		ok = ok && a->dnscache_answerlen[c] == b->dnscache_answerlen[c] && a->dnscache_answer[c][kd] == b->dnscache_answer[c][kd] &&
		     same_query(&a->dnscache_q[c], &b->dnscache_q[c]);
	return ok;
}
static int same_held(const struct tun_user *a, const struct tun_user *b)
{
	return same_query(&a->q, &b->q) && same_query(&a->q_sendrealsoon, &b->q_sendrealsoon) &&
	       a->q_sendrealsoon_new == b->q_sendrealsoon_new;
}
static int same_user(const struct tun_user *a, const struct tun_user *b)
{
#ifndef SAME_PARTS
#define SAME_PARTS 15
#endif
	return ((SAME_PARTS & 1) ? same_settings(a, b) : 1) && a->last_pkt == b->last_pkt && ((SAME_PARTS & 2) ? same_streams(a, b) : 1) &&
	       ((SAME_PARTS & 4) ? same_memory(a, b) : 1) && ((SAME_PARTS & 8) ? same_held(a, b) : 1);
}

static int live(const struct tun_user *u, long now) { return !(u->last_pkt + 60 < now); }
static int same_source(const struct tun_user *u, const struct query *q)
{
	if (q->from.ss_family != u->host.ss_family) return 0;
	if (q->from.ss_family == AF_INET)
		return memcmp(&((const struct sockaddr_in *) &u->host)->sin_addr, &((const struct sockaddr_in *) &q->from)->sin_addr, 4) == 0;
	if (q->from.ss_family == AF_INET6)
		return memcmp(&((const struct sockaddr_in6 *) &u->host)->sin6_addr, &((const struct sockaddr_in6 *) &q->from)->sin6_addr, 16) == 0;
	return 0;
}
/* statement-level predicate: may a DNS-mode request naming slot u from q's source act for that session? */
static int session_ok(const struct tun_user *u, const struct query *q, long now, int cip)
{
	return u->active && !u->disabled && live(u, now) && (!cip || same_source(u, q));
}

static struct tun_user pre[NU];
static struct tun_user vs_users[NU];	/* the slot table: its own object (pointer writes cost in proportion to the enclosing object) */
static struct query preq;

/* tunnel_dns() hands only these query types to handle_null_request() */
static int vs_tunnel_type(unsigned short t)
{
	return t == T_NULL || t == T_PRIVATE || t == T_CNAME || t == T_A || t == T_MX || t == T_SRV || t == T_TXT;
}
static int vs_slot_of(const struct query *q)
{
	int i;
	for (i = 0; i < NU; i++) {
		if (q == &users[i].q) return 1 + 2 * i;
		if (q == &users[i].q_sendrealsoon) return 2 + 2 * i;
	}
	return 0;
}

/* Which received-and-unanswered query does an answer addressed like q belong to?
 * sources: 0 = the incoming query; 1+4i / 2+4i = slot i's held query / its remembered duplicate;
 *          3+4i / 4+4i = slot i's send-real-soon query / its duplicate (pre-state). -1: none; -2: id known but
 * question or destination differ. DNS ids of the sources are assumed pairwise distinct (setup). */
#define VS_NSRC (1 + 4 * NU)
/* names are C strings: bytes behind the terminator are not part of the question */
static int vs_name_eq(const struct query *a, const struct query *b)
{
	size_t la = strlen(a->name);
	return IN.kn > la || a->name[IN.kn] == b->name[IN.kn];
}
static int vs_match(const struct query *q, const struct query *s, int dup)
{
	if (q->type != s->type || !vs_name_eq(q, s)) return 0;
	return dup ? (q->fromlen == s->fromlen2 && same_addr(&q->from, &s->from2)) : (q->fromlen == s->fromlen && same_addr(&q->from, &s->from));
}
static int vs_classify(const struct query *q)
{
	int i, r = -1;
	if (q->id == preq.id) r = vs_match(q, &preq, 0) ? 0 : -2;
	for (i = 0; i < NU; i++) {
		const struct query *h = &pre[i].q, *g = &pre[i].q_sendrealsoon;
		if (h->id != 0 && q->id == h->id) r = vs_match(q, h, 0) ? 1 + 4 * i : -2;
		if (h->id != 0 && h->id2 != 0 && q->id == h->id2) r = vs_match(q, h, 1) ? 2 + 4 * i : -2;
		if (g->id != 0 && q->id == g->id) r = vs_match(q, g, 0) ? 3 + 4 * i : -2;
		if (g->id != 0 && g->id2 != 0 && q->id == g->id2) r = vs_match(q, g, 1) ? 4 + 4 * i : -2;
	}
	return r;
}
static void vs_record(int fd, struct query *q, const char *data, int datalen, char downenc)
{
	int c, i, slot = vs_slot_of(q), src = vs_classify(q);
	/* constant element indices: a write through &vs_ans[symbolic] costs CBMC ~10k SSA steps per call */
	for (c = 0; c < VS_MAXANS; c++) {
		if (c != vs_nans) continue;
		vs_ans[c].fd = fd; vs_ans[c].slot = slot; vs_ans[c].src = src; vs_ans[c].id = q->id;
		vs_ans[c].datalen = datalen; vs_ans[c].downenc = downenc;
		for (i = 0; i < VS_DCAP; i++) vs_ans[c].d[i] = (data && i < datalen) ? (unsigned char) data[i] : 0;
	}
	vs_nans++;
}
static int vs_hook(int fd, struct query *q, const char *data, int datalen, char downenc)
{
	int slot = vs_slot_of(q);
#ifdef G_FRAG
	if (slot > 0) {
		/* answers to held queries come from send_chunk_or_dataless(): tunnel data for that session */
		const struct tun_user *u = &users[(slot - 1) / 2];
		int d = datalen - 2;
		int last;
		VASSERT(d >= 0, "data answer carries the 2-byte header");
		VASSERT(d <= u->fragsize, "fragment payload <= negotiated fragment size");
		VASSERT(u->outpacket.len > 0 ? d <= u->outpacket.len - u->outpacket.offset : d == 0, "fragment payload <= bytes remaining");
		VASSERT(d == u->outpacket.sentlen || u->outpacket.len == 0, "bytes in flight recorded for the ack");
		last = (u->outpacket.len > 0 && u->outpacket.offset + d == u->outpacket.len);
		VASSERT((data[1] & 1) == last, "last-fragment flag exactly on the final fragment");
		VASSERT(((data[1] >> 1) & 15) == (u->outpacket.fragment & 15), "fragment number in header");
		VASSERT((((unsigned char) data[1]) >> 5) == (unsigned) (u->outpacket.seqno & 7), "downstream seqno in header");
		VASSERT((unsigned char) data[0] == (0x80 | ((u->inpacket.seqno & 7) << 4) | (u->inpacket.fragment & 15)), "upstream ack in header");
		VASSERT(downenc == u->downenc, "session's downstream codec used");
		if (d > 0) {
			VASSUME(IN.kd < sizeof(u->outpacket.data));
			if ((int) IN.kd < d)
				VASSERT(data[2 + IN.kd] == u->outpacket.data[u->outpacket.offset + IN.kd], "fragment bytes are the packet's bytes at the offset");
#if MODE == 4
			VREACH("data fragment sent");
#endif
		}
	}
#endif
	vs_record(fd, q, data, datalen, downenc);
	return 1;
}

/* ---- contract of send_chunk_or_dataless(fd, u, q), q one of the two held-query slots of slot u, q->id != 0 ----
 * (asserted on the real function in MODE 4, assumed by the stub in the dispatcher cells)
 *  - one answer to (q->id, q->from), a second one to (q->id2, q->from2) when id2 != 0; afterwards q->id == 0
 *  - only users[u]'s downstream packet state, queue, query memory and answer cache change; invariant preserved
 *  - the packet in flight keeps its position (offset/fragment); it may be completed/dropped (len 0) and the next
 *    queued packet started (seqno+1, fragment 0, offset 0)
 */
static int sc_post_ok(const struct tun_user *o, const struct tun_user *n)
{
	int ok = same_settings(o, n) && o->last_pkt == n->last_pkt && same_packet(&o->inpacket, &n->inpacket) &&
		 o->q_sendrealsoon_new == n->q_sendrealsoon_new;
	if (n->outpacket.seqno == o->outpacket.seqno)
		ok = ok && ((n->outpacket.len == o->outpacket.len && n->outpacket.offset == o->outpacket.offset &&
			     n->outpacket.data[IN.kd] == o->outpacket.data[IN.kd]) ||
			    (n->outpacket.len == 0 && o->outpacket.len > 0)) && n->outpacket.fragment == o->outpacket.fragment &&
		     n->outpacketq_filled == o->outpacketq_filled && n->outpacketq_nexttouse == o->outpacketq_nexttouse;
	else {
		/* the packet in flight was completed or given up and the next queued one started; this can happen twice in one
		 * call (give up after too many resends, then the next packet fits one fragment) */
		int k = (n->outpacket.seqno - o->outpacket.seqno) & 7;
		ok = ok && (k == 1 || k == 2) && n->outpacket.fragment == 0 && n->outpacket.offset == 0 &&
		     o->outpacket.len > 0 && o->outpacketq_filled >= k && n->outpacketq_filled == o->outpacketq_filled - k;
	}
	return ok;
}
#ifdef STUB_SC
static int vs_sc_calls;
static void vs_sc_apply(struct tun_user *u, const struct vsc *h)
{
	int c;
	u->outpacket = h->t.outpacket; u->outfragresent = h->t.outfragresent;
#ifdef STUB_SC2
	/* re-delivery cells: downstream queue empty (setup), so no queued packet is started; query memory and answer cache
	 * are updated by the real helpers (see the stub) */
	return;
#endif
	for (c = 0; c < OUTPACKETQ_LEN; c++) u->outpacketq[c] = h->t.outpacketq[c];
	u->outpacketq_nexttouse = h->t.outpacketq_nexttouse; u->outpacketq_filled = h->t.outpacketq_filled;
	for (c = 0; c < QMEMPING_LEN * 4; c++) u->qmemping_cmc[c] = h->t.qmemping_cmc[c];
	for (c = 0; c < QMEMPING_LEN; c++) u->qmemping_type[c] = h->t.qmemping_type[c];
	u->qmemping_lastfilled = h->t.qmemping_lastfilled;
	for (c = 0; c < QMEMDATA_LEN * 4; c++) u->qmemdata_cmc[c] = h->t.qmemdata_cmc[c];
	for (c = 0; c < QMEMDATA_LEN; c++) u->qmemdata_type[c] = h->t.qmemdata_type[c];
	u->qmemdata_lastfilled = h->t.qmemdata_lastfilled;
	for (c = 0; c < DNSCACHE_LEN; c++) {
		u->dnscache_q[c] = h->t.dnscache_q[c]; u->dnscache_answerlen[c] = h->t.dnscache_answerlen[c];
		u->dnscache_answer[c][IN.kd % sizeof(u->dnscache_answer[c])] = h->t.dnscache_answer[c][0];
	}
	u->dnscache_lastfilled = h->t.dnscache_lastfilled;
}
static int send_chunk_or_dataless(int dns_fd, int userid, struct query *q)
{
	struct tun_user *u = &users[userid];
	static struct tun_user old;
	int c, d = 0, ret = 0;
	VASSERT(vs_sc_calls < 4, "contract stub: at most four fragment emissions per step");
	VASSERT(userid >= 0 && userid < NU && (q == &u->q || q == &u->q_sendrealsoon) && q->id != 0,
		"contract precondition: emission answers a held, unanswered query of that slot");
	old = *u;
	/* the havoc values of call k come from IN.sc[k]; k is selected with constant indices (a pointer to
	 * IN.sc[symbolic] would turn every read into a byte_extract over all of IN) */
	for (c = 0; c < 4; c++)
		if (c == vs_sc_calls) { vs_sc_apply(u, &IN.sc[c]); d = IN.sc[c].d; ret = IN.sc[c].ret & 1; }
#ifdef STUB_SC2
	{
		/* re-delivery cells: the answer bytes are explicit and the real save_to_qmem_pingordata()/save_to_dnscache() run,
		 * exactly as in the real function (the emit-dup cells assert that on the real send_chunk_or_dataless) */
		static char pkt[sizeof(((struct packet *) 0)->data) + 2];
		int b;
		for (c = 0; c < 4; c++)
			if (c == vs_sc_calls)
				for (b = 0; b < VS_DCAP; b++) pkt[b] = (char) IN.sc[c].pk[b];
		vs_sc_calls++;
		VASSUME(d >= 0 && d <= old.fragsize && d + 2 <= (int) sizeof(pkt));
		vs_record(dns_fd, q, pkt, 2 + d, u->downenc);
		if (q->id2 != 0) {
			q->id = q->id2; q->fromlen = q->fromlen2; q->from = q->from2;
			vs_record(dns_fd, q, pkt, 2 + d, u->downenc);
		}
		save_to_qmem_pingordata(userid, q);
		save_to_dnscache(userid, q, pkt, 2 + d);
		q->id = 0;
		VASSUME(inv_user_x(u, 1));
		VASSUME(sc_post_ok(&old, u));
		return ret;
	}
#endif
	vs_sc_calls++;
	VASSUME(d >= 0 && d <= old.fragsize);
	vs_record(dns_fd, q, NULL, 2 + d, u->downenc);
	if (q->id2 != 0) {
		q->id = q->id2; q->fromlen = q->fromlen2; q->from = q->from2;
		vs_record(dns_fd, q, NULL, 2 + d, u->downenc);
	}
	q->id = 0;
	VASSUME(inv_user_x(u, 1));
	VASSUME(sc_post_ok(&old, u));
	return ret;
}
#endif

static int ans_is(const struct vs_ans *a, const char *s, int n, char enc)
{
	int i;
	if (a->datalen != n || a->downenc != enc) return 0;
	for (i = 0; i < n; i++) if (a->d[i] != (unsigned char) s[i]) return 0;
	return 1;
}

#if defined(G_ANS) || MODE == 4 || MODE == 5
static void vs_assume_distinct_ids(void)
{
	unsigned short ids[VS_NSRC]; int valid[VS_NSRC], i, j, k;
	ids[0] = IN.q.id; valid[0] = 1;
	for (i = 0; i < NU; i++) {
		ids[1 + 4 * i] = IN.u[i].q.id; valid[1 + 4 * i] = IN.u[i].q.id != 0;
		ids[2 + 4 * i] = IN.u[i].q.id2; valid[2 + 4 * i] = IN.u[i].q.id != 0 && IN.u[i].q.id2 != 0;
		ids[3 + 4 * i] = IN.u[i].q_sendrealsoon.id; valid[3 + 4 * i] = IN.u[i].q_sendrealsoon.id != 0;
		ids[4 + 4 * i] = IN.u[i].q_sendrealsoon.id2; valid[4 + 4 * i] = IN.u[i].q_sendrealsoon.id != 0 && IN.u[i].q_sendrealsoon.id2 != 0;
	}
	for (j = 0; j < VS_NSRC; j++) for (k = 0; k < j; k++) VASSUME(!valid[j] || !valid[k] || ids[j] != ids[k]);
}
#endif
#if MODE == 5
static int vs_samename_nocase(const struct query *x, const struct query *y)
{
	int k;
	if (x->type != y->type) return 0;
	for (k = 0; k <= NL; k++) {
		char c = x->name[k], d = y->name[k];
		if (k >= 1 && k <= 4) {
			if (c >= 'A' && c <= 'Z') c = (char) (c + 32);
			if (d >= 'A' && d <= 'Z') d = (char) (d + 32);
		}
		if (c != d) return 0;
		if (c == 0) return 1;
	}
	return 1;
}
#endif
static void setup(void)
{
	int i;
	vs_encs[0] = &base32_ops; vs_encs[1] = &base64_ops; vs_encs[2] = &base64u_ops; vs_encs[3] = &base128_ops;
	VASSUME(IN.now >= 0 && IN.now <= IN.now2 && IN.now2 < 0x7fffff00L);
	VASSUME(IN.kf < 28 && IN.kn <= NL && IN.kd < sizeof(((struct packet *) 0)->data) && IN.ku < 120);
	for (i = 0; i < NU; i++) {
#ifdef ENCSEL
		VHINT_EQ(IN.enc[i], ENCSEL);	/* upstream codec of the sessions: one per cell where the decoder is on the path */
#endif
		IN.u[i].encoder = vs_encs[IN.enc[i] & 3];
		VHINT_EQ(IN.u[i].hostlen, AFLEN);
		/* ring read position of the downstream queue: one value per cell (get_from_outpacketq() hands a pointer to
		 * outpacketq[nexttouse].data to start_new_outpacket(); a symbolic position makes every byte read a byte_extract
		 * over the whole slot table) */
		VHINT_EQ(IN.u[i].outpacketq_nexttouse, QPOS);
#if MODE == 5
		VHINT_EQ(IN.u[i].outpacketq_filled, 0);	/* two-step cells: empty downstream queue (keeps the ring position concrete across both steps) */
#endif
		/* same for the write positions of the answer cache and the two query memories (strcmp()/memcmp() on
		 * dnscache_q[symbolic].name are byte_extracts over the whole table otherwise) */
		VHINT_EQ(IN.u[i].dnscache_lastfilled, DPOS);
		VHINT_EQ(IN.u[i].qmemping_lastfilled, MPOS);
		VHINT_EQ(IN.u[i].qmemdata_lastfilled, MPOS);
		VHINT_EQ(IN.u[i].q.fromlen, AFLEN); VHINT_EQ(IN.u[i].q.fromlen2, AFLEN);
		VHINT_EQ(IN.u[i].q_sendrealsoon.fromlen, AFLEN); VHINT_EQ(IN.u[i].q_sendrealsoon.fromlen2, AFLEN);
		VASSUME(inv_user(&IN.u[i]));
		VASSUME(IN.u[i].last_pkt <= IN.now);
		pre[i] = IN.u[i];
		vs_users[i] = IN.u[i];
	}
	users = vs_users;
#if defined(G_ANS) || MODE == 4 || MODE == 5
	vs_assume_distinct_ids();
#endif
	usercount = NU;
	created_users = NU;
	check_ip = IN.check_ip & 1;
	debug = 0;
	my_ip = IN.my_ip; ns_ip = IN.ns_ip; my_mtu = IN.my_mtu; netmask = IN.netmask;
	for (i = 0; i < 32; i++) password[i] = IN.password[i];
	password[32] = 0;
	topdomain = "t.io";
}

#if MODE == 1
static char ref_unp[64];
static int ref_read;
#endif

void harness(void)
{
	struct dnsfd fds = { 3, 4 };
	int i;
#ifndef VREPLAY
	IN = nondet_vin();
#endif
	setup();
	(void) fds;
#if MODE == 1
	{
		static struct query q;
		int domain_len = IN.domain_len;
		int len;
		q = IN.q;
		VASSUME(q.name[NL] == 0);
		VHINT_EQ(q.fromlen, AFLEN);
		VASSUME(q.id2 == 0);		/* dns_decode() clears it (dns.c) */
		VASSUME(vs_tunnel_type(q.type));	/* tunnel_dns() dispatches only these types here */
		len = (int) strlen(q.name);
		VASSUME(domain_len >= 0 && domain_len <= len);
		VASSUME(domain_len == 0 || q.name[domain_len - 1] == '.');	/* query_datalen() contract (C17) */
		preq = q;
		vs_inq = &q;
		{
			/* oracle for the login cell: what the name's data part decodes to (codec: C07) */
			static char copy[NL + 1];
			for (i = 0; i <= NL; i++) copy[i] = q.name[i];
			ref_read = domain_len >= 2 ? unpack_data(ref_unp, sizeof(ref_unp), copy + 1, domain_len - 1, &base32_ops) : 0;
		}
		handle_null_request(7, 3, &fds, &q, domain_len);
		if (domain_len >= 2) VREACH("dispatched");
	}
#endif

#if MODE == 5
	{
		/* C16: request X (ping or data, cell) for an authorised session, then re-delivery X' of the same question with another
		 * DNS id and (caseflip) changed letter case in the header characters */
		static struct query q, q2;
		static struct tun_user mid[NU];
		int domain_len = IN.domain_len, len, a = ACT, k, n1, tun1, sc1, first = -1, second = -1;
		q = IN.q;
		VASSUME(q.name[NL] == 0 && q.id2 == 0 && q.id != 0 && vs_tunnel_type(q.type));
		VHINT_EQ(q.fromlen, AFLEN);
		len = (int) strlen(q.name);
		VASSUME(domain_len >= 6 && domain_len <= len && q.name[domain_len - 1] == '.');
		VASSUME(a >= 0 && session_ok(&pre[a], &q, IN.now2, check_ip) && pre[a].authenticated);
		/* X is new to the server: not the pending or cached question (in any letter case of its header characters), and
		 * the query memories are empty (their false-positive behaviour is not the subject here) */
		VASSUME(!vs_samename_nocase(&q, &pre[a].q) && !vs_samename_nocase(&q, &pre[a].q_sendrealsoon) &&
			!vs_samename_nocase(&q, &pre[a].dnscache_q[0]));
		VASSUME(pre[a].qmemping_type[0] == T_UNSET && pre[a].qmemdata_type[0] == T_UNSET);
		preq = q;
		vs_inq = &q;
		handle_null_request(7, 3, &fds, &q, domain_len);
		for (i = 0; i < NU; i++) mid[i] = users[i];
		n1 = vs_nans; tun1 = vs_tunwrites; sc1 = vs_sc_calls;
		q2 = preq;
		q2.id = IN.id_b;
		VASSUME(IN.id_b != 0);
		for (k = 1; k <= 4; k++)
			if ((IN.caseflip >> k) & 1) {
				char c = q2.name[k];
				if (c >= 'a' && c <= 'z') q2.name[k] = (char) (c - 32);
				else if (c >= 'A' && c <= 'Z') q2.name[k] = (char) (c + 32);
			}
#if !IS_HEXCMD
		VASSUME(IN.caseflip == 0);	/* ping: the answer cache compares names verbatim; the fingerprint path is the data cells' subject */
#endif
		vs_inq = &q2;
		handle_null_request(7, 3, &fds, &q2, domain_len);
		/* the repeat neither appends upstream data nor moves the downstream stream */
		for (i = 0; i < NU; i++) {
			VASSERT(same_packet(&mid[i].inpacket, &users[i].inpacket), "re-delivery appends nothing to the upstream reassembly buffer");
			/* the repeat's ack fields are not applied a second time: position and fragment number stay, unless the packet in
			 * flight is completed by a fragment that was due anyway (emission contract: len -> 0) */
			VASSERT(users[i].outpacket.seqno == mid[i].outpacket.seqno && users[i].outpacket.fragment == mid[i].outpacket.fragment &&
				((users[i].outpacket.offset == mid[i].outpacket.offset && users[i].outpacket.len == mid[i].outpacket.len) ||
				 (users[i].outpacket.len == 0 && vs_sc_calls > sc1)) &&
				users[i].outpacketq_filled == mid[i].outpacketq_filled && users[i].outpacketq_nexttouse == mid[i].outpacketq_nexttouse,
				"re-delivery neither advances nor rewinds the downstream stream");
			VASSERT(same_settings(&mid[i], &users[i]), "re-delivery changes no setting");
		}
		VASSERT(vs_tunwrites == tun1, "re-delivery delivers nothing to the tun device");
		/* identical repeat while the original answer is cached: same payload */
		for (k = 0; k < VS_MAXANS; k++) {
			if (k < n1 && vs_ans[k].src == 0 && vs_ans[k].slot > 0) first = k;
			if (k >= n1 && k < vs_nans) second = k;
		}
		VASSERT(vs_nans - n1 <= 1 || vs_sc_calls > sc1, "a recognised repeat gets at most one answer");
		if (first >= 0 && IN.caseflip == 0 && vs_ans[first >= 0 ? first : 0].datalen <= (int) sizeof(users[0].dnscache_answer[0])) {
			VASSERT(second >= 0, "an identical repeat of an answered query is answered from the cache");
			if (second >= 0) {
				VASSERT(vs_ans[second].id == IN.id_b && vs_ans[second].slot == 0, "the repeat's answer goes to the repeat");
				VASSERT(vs_ans[second].datalen == vs_ans[first].datalen && vs_ans[second].d[IN.kd % VS_DCAP] == vs_ans[first].d[IN.kd % VS_DCAP],
					"the repeat's answer carries the same payload as the original answer");
				VREACH("repeat answered from cache");
			}
		}
		if (first >= 0) {
			/* the original was answered in step 1, so it is in the answer cache and/or the query memory: the repeat must be
			 * recognised there (cached payload or the "x" refusal) and not be processed as a new query */
			VASSERT(vs_sc_calls == sc1, "a repeat of an answered query releases no held query (it is not processed as new)");
			VASSERT(same_held(&mid[a], &users[a]), "a repeat of an answered query is not stored as the session's pending query");
			VREACH("repeat of an answered query");
		}
		if (first < 0) VREACH("original still pending when the repeat arrives");
	}
#endif

#if MODE == 2
	{
		/* one datagram that passes raw_decode()'s header test (or not: RAWHDR_OK 0), raw command RAWCMD, slot UIDCELL */
		static struct query q;
		static char packet[sizeof(((struct packet *) 0)->data)];
		int len = IN.rawlen, r;
		q = IN.q;
		VASSUME(q.name[NL] == 0 && q.fromlen2 == AFLEN);	/* whatever the previous datagram's decode left there */
		VHINT_EQ(q.fromlen, AFLEN);
		VASSUME(len >= 0 && len <= RAWMAX);
		for (i = 0; i < RAWMAX; i++) packet[i] = IN.raw[i];
#if RAWHDR_OK
		packet[0] = (char) raw_header[0]; packet[1] = (char) raw_header[1]; packet[2] = (char) raw_header[2];
		packet[3] = (char) (RAWCMD | ((UIDCELL) & 15));
#else
		VASSUME(len < RAW_HDR_LEN || packet[0] != (char) raw_header[0] || packet[1] != (char) raw_header[1] || packet[2] != (char) raw_header[2]);
#endif
		preq = q;
		vs_inq = &q;
		r = raw_decode(packet, len, &q, 3, &fds, 7);
#if RAWHDR_OK
		if (len >= RAW_HDR_LEN) { VASSERT(r == 1, "a datagram with the raw header is consumed as raw"); VREACH("raw frame dispatched"); }
#else
		VASSERT(r == 0, "a datagram without the raw header is left to the DNS decoder");
#endif
	}
#endif

#if MODE == 3
	{
		/* one packet from the tun device: tunnel_tun() with an arbitrary packet, destination slot = cell (TOCELL) */
		/* the kernel hands over whole IP packets: 4-byte tun header + at least an IP header (or nothing / an error) */
		VASSUME(IN.tunlen <= TUNMAX && (IN.tunlen <= 0 || IN.tunlen >= 24));
		vs_inq = NULL;
		(void) tunnel_tun(7, &fds);
		if (IN.tunlen >= 24) VREACH("tun packet read");
	}
#endif

#if MODE == 4
	{
		/* the real send_chunk_or_dataless() on a held query of slot UIDCELL, as called by the request handlers, by
		 * tunnel_tun()/handle_full_packet() and by the main loop's send-real-soon sweep */
		struct tun_user *u = &users[UIDCELL];
		struct query *hq = (QSEL) ? &u->q_sendrealsoon : &u->q;
		static struct query hq0;
		int r;
		VASSUME(hq->id != 0);
		hq0 = *hq;
		r = send_chunk_or_dataless(3, UIDCELL, hq);
		VASSERT(r == 0 || r == 1, "returns 0 or 1");
		VASSERT(hq->id == 0, "the answered query is marked used");
		VASSERT(vs_nans == (hq0.id2 != 0 ? 2 : 1), "one answer, plus one to the remembered duplicate");
		VASSERT(vs_ans[0].src == 1 + 4 * UIDCELL + 2 * (QSEL), "first answer goes to the held query's id, question and sender");
		if (hq0.id2 != 0) {
			VASSERT(vs_ans[1].src == 2 + 4 * UIDCELL + 2 * (QSEL), "second answer goes to the duplicate's id and sender");
			VASSERT(vs_ans[1].datalen == vs_ans[0].datalen && vs_ans[1].d[IN.kd % VS_DCAP] == vs_ans[0].d[IN.kd % VS_DCAP], "duplicate gets the same payload");
			VREACH("duplicate answered");
		}
		VASSERT(sc_post_ok(&pre[UIDCELL], u), "contract: only the downstream packet state, queue, query memory and cache of this slot change");
		VASSERT(same_query((QSEL) ? &pre[UIDCELL].q : &pre[UIDCELL].q_sendrealsoon, (QSEL) ? &u->q : &u->q_sendrealsoon), "the other held query is untouched");
		VASSERT(same_user(&pre[1 - UIDCELL], &users[1 - UIDCELL]), "other slot untouched");
		VASSERT(vs_tunwrites == 0 && vs_nsent == 0, "no tun write, no raw datagram");
		if (r == 1) VREACH("next queued packet started");
#ifdef G_DUP
		{
			/* the answered query is remembered: answer cache (verbatim payload) and query memory (fingerprint) */
			int fill = (DPOS + 1) % DNSCACHE_LEN, mfill_p = (MPOS + 1) % QMEMPING_LEN, mfill_d = (MPOS + 1) % QMEMDATA_LEN, j = IN.kf & 3;
			size_t nl = strlen(hq0.name);
			if (vs_ans[0].datalen <= (int) sizeof(u->dnscache_answer[0])) {
				VASSERT(u->dnscache_lastfilled == fill && u->dnscache_answerlen[fill] == vs_ans[0].datalen, "answer stored in the next cache entry");
				VASSERT(u->dnscache_q[fill].type == hq0.type && u->dnscache_q[fill].name[IN.kn] == hq0.name[IN.kn] && u->dnscache_q[fill].id != 0,
					"cache entry is keyed by the answered question");
				if ((int) (IN.kd % VS_DCAP) < vs_ans[0].datalen)
					VASSERT((unsigned char) u->dnscache_answer[fill][IN.kd % VS_DCAP] == vs_ans[0].d[IN.kd % VS_DCAP], "cached payload is the payload that was sent");
				VREACH("answer cached");
			}
			if (hq0.name[0] == 'P' || hq0.name[0] == 'p') {
				static char cp[NL + 1], ref[8]; size_t rl = 7; int k, dot = -1, got = 0;
				for (k = 0; k <= NL; k++) cp[k] = hq0.name[k];
				for (k = 0; k <= NL && cp[k]; k++) if (cp[k] == '.') { dot = k; break; }	/* strchr: up to the terminator */
				if (dot >= 1) got = base32_ops.decode(ref, &rl, cp + 1, (size_t) (dot - 1));
				if (dot >= 1 && got >= 4) {
					VASSERT(u->qmemping_lastfilled == mfill_p && u->qmemping_type[mfill_p] == hq0.type &&
						u->qmemping_cmc[mfill_p * 4 + j] == (unsigned char) ref[j], "ping fingerprint (decoded userid/ack/CMC bytes) remembered");
					VREACH("ping remembered");
				}
			} else if (nl >= 5) {
				char c0 = hq0.name[1 + j];
				if (c0 >= 'A' && c0 <= 'Z') c0 = (char) (c0 + ('a' - 'A'));
				VASSERT(u->qmemdata_lastfilled == mfill_d && u->qmemdata_type[mfill_d] == hq0.type &&
					u->qmemdata_cmc[mfill_d * 4 + j] == (unsigned char) c0, "data query fingerprint (lower-cased header chars) remembered");
				VREACH("data query remembered");
			}
		}
#endif
	}
#endif

#ifdef G_INV
	for (i = 0; i < NU; i++)
		VASSERT(inv_user_x(&users[i], 1), "slot invariant preserved by the step");
#endif

#if MODE == 1 && defined(G_AUTH)
	{
		int a = ACT;
		int changed[NU], any = 0;
		for (i = 0; i < NU; i++) { changed[i] = !same_user(&pre[i], &users[i]); any = any || changed[i]; }
		/* --- flags only rise through the login paths --- */
		for (i = 0; i < NU; i++) {
#if IS_CMD('L')
			if (i == a && !pre[i].authenticated && users[i].authenticated) {
				VASSERT(session_ok(&pre[i], &preq, IN.now, check_ip), "login accepted only for a live slot from its bound source");
				VASSERT(vs_lc_calls == 1 && vs_lc_seed[0] == pre[i].seed && vs_lc_pass[0] == password,
					"response computed from the server password and this slot's current challenge");
				VASSERT(ref_read >= 18 && memcmp(ref_unp + 1, IN.hash[0], 16) == 0, "received response equals the expected digest");
#if ACT_VALID
				VREACH("login accepted");
#endif
			} else
#endif
			VASSERT(pre[i].authenticated || !users[i].authenticated, "authenticated flag rises only in the login cell for the named slot");
			VASSERT(pre[i].authenticated_raw || !users[i].authenticated_raw, "raw flag never rises in DNS mode");
#if !IS_CMD('V')
			VASSERT(users[i].seed == pre[i].seed && users[i].active == pre[i].active, "challenge and slot allocation change only in the version cell");
#endif
		}
#if IS_HEXCMD && TOCELL >= 0 && ACT_VALID
		/* a completed upstream packet addressed to a raw-mode session is forwarded as one raw datagram to that session */
		if (vs_nsent > 0) {
			VASSERT(vs_nsent == 1 && pre[TOCELL].conn == CONN_RAW_UDP && pre[TOCELL].active && pre[TOCELL].authenticated && !pre[TOCELL].disabled &&
				pre[TOCELL].tun_ip == IN.zdst && pre[a].authenticated && session_ok(&pre[a], &preq, IN.now, check_ip),
				"a raw datagram leaves only as forwarding from an authenticated session to the live raw-mode owner of the address");
			VASSERT(vs_sent[0].tolen == pre[TOCELL].q.fromlen && same_addr(&vs_sent[0].to, &pre[TOCELL].q.from) || TOCELL == UIDCELL,
				"and goes to that session's last source address");
			VREACH("forwarded as raw datagram");
		}
#else
		VASSERT(vs_nsent == 0, "DNS-mode requests never emit raw datagrams");
#endif
#if IS_CMD('V')
		/* slot allocation: only a free or expired, non-disabled slot is (re)used; it starts unauthenticated */
		for (i = 0; i < NU; i++) {
			if (i == a) {
				if (changed[i]) {
					VASSERT((!pre[i].active || pre[i].last_pkt + 60 < IN.now2) && !pre[i].disabled, "only an unused or expired slot is taken over");
					VASSERT(!users[i].authenticated && !users[i].authenticated_raw && !users[i].options_locked, "new session starts unauthenticated");
					VASSERT(users[i].q.id == 0 && users[i].q_sendrealsoon.id == 0 && users[i].outpacket.len == 0 && users[i].inpacket.len == 0 &&
						users[i].outpacketq_filled == 0, "new session starts with empty streams");
					VASSERT(users[i].tun_ip == pre[i].tun_ip && users[i].disabled == pre[i].disabled, "tunnel address stays with the slot");
#if ACT_VALID
					VREACH("slot allocated");
#endif
				}
			} else
				VASSERT(!changed[i], "version request leaves every other slot untouched");
			if (a >= 0 && i < a && changed[a])
				VASSERT(pre[i].disabled || (pre[i].active && !(pre[i].last_pkt + 60 < IN.now)), "first free slot is used");
		}
		VASSERT(vs_tunwrites == 0, "version request writes nothing to the tun device");
#elif IS_CMD('L')
		for (i = 0; i < NU; i++) {
			if (i == a && session_ok(&pre[i], &preq, IN.now, check_ip) && ref_read >= 17) {
				/* allowed effect: liveness refresh + flag (asserted above) */
				VASSERT(same_streams(&pre[i], &users[i]) && same_memory(&pre[i], &users[i]) && same_held(&pre[i], &users[i]),
					"login touches neither streams nor held queries");
				VASSERT(users[i].encoder == pre[i].encoder && users[i].downenc == pre[i].downenc && users[i].fragsize == pre[i].fragsize &&
					users[i].conn == pre[i].conn && users[i].lazy == pre[i].lazy && users[i].hostlen == pre[i].hostlen &&
					users[i].authenticated_raw == pre[i].authenticated_raw && users[i].options_locked == pre[i].options_locked,
					"login changes no session setting");
			} else
				VASSERT(!changed[i], "login request for a dead, foreign or other slot changes nothing");
		}
		VASSERT(vs_tunwrites == 0, "login request writes nothing to the tun device");
		if (!(a >= 0 && session_ok(&pre[a >= 0 ? a : 0], &preq, IN.now, check_ip)) && vs_nans > 0) {
			VASSERT(vs_nans == 1 && (ans_is(&vs_ans[0], "BADIP", 5, 'T') || ans_is(&vs_ans[0], "BADLEN", 6, 'T')), "refused login is answered BADIP/BADLEN only");
			VREACH("login refused");
		}
#elif IS_CMD('Z') || IS_CMD('Y')
		VASSERT(!any && vs_tunwrites == 0, "codec test requests change no session state");
#elif !IS_KNOWN
		VASSERT(!any && vs_tunwrites == 0 && vs_nans == 0, "unknown command letters are ignored");
#else
		/* session commands I,S,O,R,N,P and data */
		{
			int ok = a >= 0 && session_ok(&pre[a >= 0 ? a : 0], &preq, IN.now, check_ip) && pre[a >= 0 ? a : 0].authenticated;
#if IS_CMD('S') || IS_CMD('O') || IS_CMD('N')
			int okopt = ok && (check_ip || !pre[a >= 0 ? a : 0].options_locked);
#else
			int okopt = ok;
#endif
			if (!okopt) {
				VASSERT(!any, "request for a slot that is dead, unauthenticated, or bound to another source changes nothing");
				VASSERT(vs_tunwrites == 0, "no tun write on behalf of an unauthenticated request");
				VASSERT(vs_nans <= 1, "at most one answer");
				if (vs_nans == 1) {
					VASSERT(ans_is(&vs_ans[0], "BADIP", 5, 'T') || ans_is(&vs_ans[0], "BADLEN", 6, 'T'), "refused request is answered BADIP/BADLEN only");
					VASSERT(vs_ans[0].slot == 0 && vs_ans[0].id == preq.id, "refusal answers the incoming query");
					VREACH("refused");
				}
			} else {
				/* effects on other sessions: only client-to-client forwarding from a data request, to a live authenticated session */
				for (i = 0; i < NU; i++) {
					if (i == a) continue;
					VASSERT(same_settings(&pre[i], &users[i]) && pre[i].last_pkt == users[i].last_pkt && same_packet(&pre[i].inpacket, &users[i].inpacket),
						"a request never changes another session's settings, liveness or upstream buffer");
#if !IS_HEXCMD
					VASSERT(!changed[i], "only data requests can touch another session");
#else
					if (changed[i]) {
						VASSERT(pre[i].active && pre[i].authenticated && !pre[i].disabled && pre[i].last_pkt + 60 > IN.now,
							"forwarded packet goes only to a live logged-in session");
						VASSERT(pre[i].tun_ip == IN.zdst && vs_unc_calls == 1 && IN.zret == 0, "forwarding target owns the packet's destination address");
#if ACT_VALID && TOCELL >= 0 && TOCELL != UIDCELL
						VREACH("client-to-client forward");
#endif
					}
#endif
				}
#if IS_HEXCMD && ACT_VALID && TOCELL < 0
				if (vs_tunwrites > 0) VREACH("tun write by authenticated session");
#endif
				if (!same_settings(&pre[a], &users[a])) {
					VASSERT(users[a].active == pre[a].active && users[a].authenticated == pre[a].authenticated && users[a].seed == pre[a].seed &&
						users[a].tun_ip == pre[a].tun_ip && users[a].disabled == pre[a].disabled && users[a].hostlen == pre[a].hostlen &&
						users[a].conn == pre[a].conn, "session commands never change identity, credentials, binding or connection type");
#if (IS_CMD('S') || IS_CMD('O') || IS_CMD('N')) && ACT_VALID
					VREACH("settings changed by authenticated session");
#else
					VASSERT(0, "only S, O and N requests change session settings");
#endif
				}
			}
		}
#endif
	}
#endif

#if MODE == 2 && defined(G_AUTH)
	{
		int a = ACT;
		int changed[NU];
		for (i = 0; i < NU; i++) changed[i] = !same_user(&pre[i], &users[i]);
#if RAWHDR_OK && RAWCMD == 0x20 && TOCELL >= 0
		{
			/* forwarding to a DNS-mode session may release that session's held queries; nothing else is answered */
			int k;
			for (k = 0; k < VS_MAXANS; k++)
				if (k < vs_nans) VASSERT(vs_ans[k].slot == 1 + 2 * TOCELL || vs_ans[k].slot == 2 + 2 * TOCELL,
							 "a raw data frame triggers DNS answers only to held queries of the session it is forwarded to");
		}
#else
		VASSERT(vs_nans == 0, "raw frames never produce DNS answers directly");
#endif
		for (i = 0; i < NU; i++) {
			VASSERT(pre[i].authenticated == users[i].authenticated && pre[i].seed == users[i].seed && pre[i].active == users[i].active,
				"raw frames never change the DNS-login flag, the challenge or slot allocation");
#if RAWHDR_OK && RAWCMD == 0x10
			if (i == a && !pre[i].authenticated_raw && users[i].authenticated_raw) {
				VASSERT(pre[i].active && !pre[i].disabled && pre[i].authenticated && live(&pre[i], IN.now), "raw login only for a live session that passed the DNS login");
				VASSERT(vs_lc_calls == 2 && vs_lc_seed[0] == (int) ((unsigned) pre[i].seed + 1) && vs_lc_pass[0] == password,
					"raw login response is checked against the digest of challenge+1 with the server password");
				VASSERT(IN.rawlen - RAW_HDR_LEN >= 16 && memcmp(IN.raw + RAW_HDR_LEN, IN.hash[0], 16) == 0, "received raw response equals that digest");
				VASSERT(vs_lc_seed[1] == (int) ((unsigned) pre[i].seed - 1), "the reply carries the digest of challenge-1");
				VASSERT(vs_nsent == 1 && vs_sent[0].len == RAW_HDR_LEN + 16 && vs_sent[0].data[RAW_HDR_LEN + (IN.kf & 15)] == (unsigned char) IN.hash[1][IN.kf & 15],
					"one raw login reply with that digest");
				VASSERT(users[i].conn == CONN_RAW_UDP, "session switched to raw mode");
#if ACT_VALID
				VREACH("raw login accepted");
#endif
			} else
#endif
			VASSERT(pre[i].authenticated_raw || !users[i].authenticated_raw, "raw flag rises only through a correct raw login for the named slot");
			if (i != a) {
#if RAWHDR_OK && RAWCMD == 0x20
				if (changed[i]) {
					VASSERT(pre[i].active && pre[i].authenticated && !pre[i].disabled && pre[i].last_pkt + 60 > IN.now && pre[i].tun_ip == IN.zdst,
						"a raw data frame reaches another session only by forwarding to the live owner of the destination address");
					VASSERT(same_settings(&pre[i], &users[i]) && pre[i].last_pkt == users[i].last_pkt, "forwarding changes no setting of the target");
				}
#else
				VASSERT(!changed[i], "only raw data frames can touch another session");
#endif
			}
		}
#if RAWHDR_OK && (RAWCMD == 0x20 || RAWCMD == 0x30)
		{
			int ok = a >= 0 && session_ok(&pre[a >= 0 ? a : 0], &preq, IN.now, check_ip) && pre[a >= 0 ? a : 0].authenticated &&
				 pre[a >= 0 ? a : 0].authenticated_raw && IN.rawlen >= RAW_HDR_LEN;
			if (!ok) {
				for (i = 0; i < NU; i++) VASSERT(!changed[i], "raw data/ping from a session without raw login (or from another source) changes nothing");
				VASSERT(vs_tunwrites == 0 && vs_nsent == 0, "and causes no tun write and no reply");
				VREACH("raw frame refused");
			} else {
#if ACT_VALID
				if (vs_tunwrites > 0 || vs_nsent > 0) VREACH("raw frame served");
#endif
				VASSERT(same_settings(&pre[a], &users[a]), "raw data/ping change no session setting");
			}
		}
#elif RAWHDR_OK && RAWCMD == 0x10
		if (a >= 0 && changed[a]) {
			/* a correct raw login may rebind the source address: nothing else of the session's identity changes */
			VASSERT(users[a].authenticated_raw == 1 && users[a].encoder == pre[a].encoder && users[a].downenc == pre[a].downenc &&
				users[a].fragsize == pre[a].fragsize && users[a].tun_ip == pre[a].tun_ip && users[a].lazy == pre[a].lazy &&
				same_streams(&pre[a], &users[a]), "raw login changes only liveness, binding, connection type and the raw flag");
		}
		VASSERT(vs_tunwrites == 0, "raw login writes nothing to the tun device");
#else
		for (i = 0; i < NU; i++) VASSERT(!changed[i], "unknown raw command or no raw header: no state change");
		VASSERT(vs_tunwrites == 0 && vs_nsent == 0, "and nothing is sent");
#endif
	}
#endif

#if MODE == 3 && defined(G_AUTH)
	{
		uint32_t dst;
		int k;
		memcpy(&dst, &IN.tun[20], 4);	/* ip_dst of the packet behind the 4-byte tun header */
		VASSERT(vs_tunwrites == 0, "a packet from the tun device is never written back to it");
		for (i = 0; i < NU; i++) {
			int touched = !same_user(&pre[i], &users[i]);
			for (k = 0; k < VS_MAXANS; k++)
				if (k < vs_nans && (vs_ans[k].slot == 1 + 2 * i || vs_ans[k].slot == 2 + 2 * i)) touched = 1;
			if (touched) {
				VASSERT(IN.tunlen > 0, "nothing happens without a packet");
				VASSERT(pre[i].active && pre[i].authenticated && !pre[i].disabled && pre[i].last_pkt + 60 > IN.now && pre[i].tun_ip == dst,
					"a tun packet is handed only to the live, logged-in session that owns its destination address");
				VASSERT(same_settings(&pre[i], &users[i]) && pre[i].last_pkt == users[i].last_pkt && same_packet(&pre[i].inpacket, &users[i].inpacket),
					"delivery changes neither settings nor liveness nor the upstream buffer of the target");
#if TOCELL >= 0
				VREACH("tun packet queued or sent");
#endif
			}
		}
		for (k = 0; k < VS_MAXANS; k++)
			if (k < vs_nans) VASSERT(vs_ans[k].slot > 0, "answers triggered by a tun packet go to held queries only");
		if (vs_nsent > 0) {
			/* raw-mode session: one raw datagram to the address of its last frame */
#if TOCELL >= 0
			VASSERT(vs_nsent == 1 && pre[TOCELL].conn == CONN_RAW_UDP && pre[TOCELL].active && pre[TOCELL].authenticated &&
				!pre[TOCELL].disabled && pre[TOCELL].last_pkt + 60 > IN.now && pre[TOCELL].tun_ip == dst,
				"raw delivery only to the live logged-in raw-mode owner of the address");
			VASSERT(vs_sent[0].tolen == pre[TOCELL].q.fromlen && same_addr(&vs_sent[0].to, &pre[TOCELL].q.from), "sent to that session's last source address");
#else
			VASSERT(0, "no owner, yet a datagram was sent");
#endif
		}
	}
#endif

#if MODE == 1 && defined(G_FRAG)
	{
		int a = ACT;
		if (a >= 0) {
			const struct tun_user *p = &pre[a], *u = &users[a];
#if IS_CMD('N')
			if (u->fragsize != p->fragsize) {
				VASSERT(u->fragsize >= 2 && ref_read >= 3 && u->fragsize == (((ref_unp[1] & 0xff) << 8) | (ref_unp[2] & 0xff)), "installed fragment size is the requested one and >= 2");
#if ACT_VALID
				VREACH("fragsize installed");
#endif
			}
#elif IS_CMD('V')
			if (!same_user(p, u)) VASSERT(u->fragsize == 100, "conservative default fragment size before negotiation");
#else
			VASSERT(u->fragsize == p->fragsize, "fragment size changes only through the N command");
#endif
			/* numbering: same packet => fragment advances by exactly one per accepted ack, offset by the bytes in flight */
			if (p->outpacket.len > 0 && u->outpacket.len == p->outpacket.len && u->outpacket.seqno == p->outpacket.seqno &&
			    u->outpacket.offset + u->outpacket.fragment > 0 && same_settings(p, u) && p->outfragresent <= 5) {
				VASSERT((u->outpacket.offset == p->outpacket.offset && u->outpacket.fragment == p->outpacket.fragment) ||
					(u->outpacket.offset == p->outpacket.offset + p->outpacket.sentlen && u->outpacket.fragment == p->outpacket.fragment + 1),
					"same packet: fragment number advances by exactly 1 together with the acked bytes, or not at all");
			}
#if !IS_CMD('V')
			if (u->outpacket.seqno != p->outpacket.seqno)
				VASSERT(u->outpacket.fragment == 0 && u->outpacket.offset == 0,
					"a new downstream packet starts at fragment 0, offset 0");
#endif
		}
	}
#endif

#if (MODE == 1 || MODE == 3) && defined(G_ANS)
	{
		/* sources = incoming query + held queries (id != 0) + their remembered duplicates; ids pairwise distinct (setup) */
		int j, k, answered[VS_NSRC];
		const struct query *src[VS_NSRC]; int valid[VS_NSRC];
		src[0] = &preq; valid[0] = (MODE == 1);
		for (i = 0; i < NU; i++) {
			src[1 + 4 * i] = &pre[i].q; valid[1 + 4 * i] = pre[i].q.id != 0;
			src[2 + 4 * i] = &pre[i].q; valid[2 + 4 * i] = pre[i].q.id != 0 && pre[i].q.id2 != 0;
			src[3 + 4 * i] = &pre[i].q_sendrealsoon; valid[3 + 4 * i] = pre[i].q_sendrealsoon.id != 0;
			src[4 + 4 * i] = &pre[i].q_sendrealsoon; valid[4 + 4 * i] = pre[i].q_sendrealsoon.id != 0 && pre[i].q_sendrealsoon.id2 != 0;
		}
		for (j = 0; j < VS_NSRC; j++) answered[j] = 0;
		VASSERT(vs_nans <= VS_MAXANS, "answers per step within the recorder");
		for (k = 0; k < VS_MAXANS; k++) {
			if (k >= vs_nans) break;
			VASSERT(vs_ans[k].src >= 0, "every answer carries the id, question and address of a received, not yet answered query");
			for (j = 0; j < VS_NSRC; j++)
				if (vs_ans[k].src == j) {
					VASSERT(valid[j], "answered query was pending");
					VASSERT(answered[j] == 0, "at most one answer per received query");
					answered[j] = 1;
				}
		}
#if (IS_CMD('P') || IS_HEXCMD) && ACT_VALID && MODE == 1
		if (vs_nans >= 2) VREACH("two answers in one step");
#endif
		/* after the step: what is held was received and is unanswered; nothing answered stays held.
		 * (loops over constant source indices: src[symbolic] would be a multi-target pointer) */
		for (i = 0; i < NU; i++) {
			int t;
			for (t = 0; t < 2; t++) {
				const struct query *h = t ? &users[i].q_sendrealsoon : &users[i].q;
				int found = 0, found2 = 0;
				if (h->id == 0) continue;
				for (j = 0; j < VS_NSRC; j++) {
					int isdup = (j > 0 && ((j - 1) & 1));
					unsigned short sid = isdup ? src[j]->id2 : src[j]->id;
					if (!valid[j]) continue;
					if (!isdup && h->id == sid) {
						found = 1;
						VASSERT(!answered[j], "an answered query is no longer held (it would be answered twice)");
						VASSERT(vs_match(h, src[j], 0), "held query is stored unchanged");
					}
					if (h->id2 != 0 && h->id2 == sid) {
						found2 = 1;
						VASSERT(!answered[j], "a remembered duplicate is not yet answered");
						VASSERT(h->type == src[j]->type && vs_name_eq(h, src[j]),
							"a remembered duplicate asks the same question as the held query it is attached to");
						VASSERT(isdup ? (h->fromlen2 == src[j]->fromlen2 && same_addr(&h->from2, &src[j]->from2))
							      : (h->fromlen2 == src[j]->fromlen && same_addr(&h->from2, &src[j]->from)),
							"a remembered duplicate keeps its own sender address");
					}
				}
				VASSERT(found, "a held query is one that was received");
				if (h->id2 != 0) VASSERT(found2, "a remembered duplicate was received");
			}
			VASSERT(users[i].q.id == 0 || users[i].q_sendrealsoon.id == 0 || users[i].q.id != users[i].q_sendrealsoon.id,
				"the same query is not held in both slots");
		}
#if !IS_CMD('V')
		/* no held query is silently dropped: a pre-held one is answered now or still held */
		for (j = 1; j < VS_NSRC; j += 2) {
			if (valid[j] && !answered[j]) {
				int still = 0;
				for (i = 0; i < NU; i++)
					still = still || users[i].q.id == src[j]->id || users[i].q_sendrealsoon.id == src[j]->id;
				VASSERT(still, "a held query is answered or kept, never forgotten");
			}
		}
#endif
	}
#endif
	VREACH("end");
}
#ifdef VREPLAY
int main(void) { harness(); puts("REPLAY-OK"); return 0; }
#endif
