/* vserver.h: the real src/iodined.c, textually included so that its static functions and
 * variables are reachable, with the process environment replaced by stubs:
 *   sendto        -> recorder (vs_sent[])
 *   time          -> VS_NOW (harness-provided lvalue/expression)
 *   rand          -> VS_RAND
 *   read_tun/write_tun -> harness-provided (tun.c is not linked)
 *   syslog, warn, warnx, fprintf, format_addr -> no-ops (CBMC build only)
 * A harness defines VS_NOW / VS_RAND before including this file.
 */
#ifndef VSERVER_H
#define VSERVER_H
#include "vharness.h"
#include <sys/types.h>
#include <sys/socket.h>
#include <netinet/in.h>
#include <time.h>
#include <stdlib.h>
#include <stdarg.h>
#include <stdio.h>

#ifndef VS_MAXSENT
#define VS_MAXSENT 4
#endif
#ifndef VS_CAP
#define VS_CAP 600
#endif
struct vs_sent_s {
	int fd;
	long len;
	unsigned char data[VS_CAP];
	struct sockaddr_storage to;
	socklen_t tolen;
};
static struct vs_sent_s vs_sent[VS_MAXSENT];
static int vs_nsent;

ssize_t sendto(int fd, const void *buf, size_t len, int flags, const struct sockaddr *to, socklen_t tolen)
{
	(void) flags;
	if (vs_nsent < VS_MAXSENT) {
		struct vs_sent_s *s = &vs_sent[vs_nsent];
		size_t i;
		s->fd = fd;
		s->len = (long) len;
		/* element-wise copies: a memcpy with symbolic length is very expensive for the solver */
		for (i = 0; i < VS_CAP; i++)
			if (i < len) s->data[i] = ((const unsigned char *) buf)[i];
		for (i = 0; i < sizeof(struct sockaddr_in6); i++)
			((unsigned char *) &s->to)[i] = (i < tolen) ? ((const unsigned char *) to)[i] : 0;
		s->tolen = tolen;
	}
	vs_nsent++;
	return (ssize_t) len;
}

#define main iodined_main
#include "iodined.c"
#undef main

#include "vlibc.h"

#ifdef VREPLAY
/* tun.c is not linked; iodined's main() (renamed, never called) still references these */
int open_tun(const char *d) { (void) d; return -1; }
void close_tun(int fd) { (void) fd; }
int tun_setip(const char *a, const char *b, int c) { (void) a; (void) b; (void) c; return 1; }
int tun_setmtu(const unsigned m) { (void) m; return 1; }
#endif

time_t time(time_t *t) { time_t v = (time_t) (VS_NOW); if (t) *t = v; return v; }
int rand(void) { return (VS_RAND); }

#ifndef VREPLAY
void syslog(int pri, const char *fmt, ...) { (void) pri; (void) fmt; }
void warnx(const char *fmt, ...) { (void) fmt; }
void warn(const char *fmt, ...) { (void) fmt; }
in_addr_t inet_addr(const char *cp)
{
	/* only literal used by iodined.c on these paths */
	__CPROVER_assert(strcmp(cp, "127.0.0.1") == 0, "PROP:model: inet_addr only called with \"127.0.0.1\"");
	return htonl(0x7f000001u);
}
#endif

#endif
