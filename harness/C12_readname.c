/* C12/C05/C06 lemma A: the name reader. Real code: read.c readname_loop() (static, reached by
 * including read.c), called directly so that small packets need no 12-byte DNS header.
 * Two runs on receive buffers that agree on [0,len) and differ beyond; results must be identical
 * (non-interference of the residue), the reader must stay inside the PL-byte receive buffer and
 * inside dst[0..length), and must terminate (unwinding assertions).
 * Depth budget D (cell) replaces the constant 10 of readname(): chains deeper than D are outside
 * the claim (the code is uniform in the remaining budget).
 */
#include "vharness.h"
#include <stdlib.h>
#include "vlibc.h"
#include "read.c"

#ifndef PL
#define PL 10
#endif
#ifndef DLEN
#define DLEN 14
#endif
#ifndef D
#define D 3
#endif

struct vin {
	unsigned char pk[PL], alt[PL], dinit[DLEN];
	unsigned len, off, length, k;
};
#ifdef VREPLAY
#include "replay_in.h"
static struct vin IN = VIN_INIT;
#else
struct vin nondet_vin(void);
static struct vin IN;
#endif

void harness(void)
{
	char a[PL], b[PL], d1[DLEN], d2[DLEN];
	char *p1, *p2;
	int r1, r2;
	unsigned i;
#ifndef VREPLAY
	IN = nondet_vin();
#endif
	VASSUME(IN.len < PL);	/* UDP payload < receive buffer size: one spare byte */
	VASSUME(IN.off <= IN.len);			/* every call site has checked this (CHECKLEN) */
	VASSUME(IN.length >= 3 && IN.length <= DLEN);	/* callers pass 255/256; recursion passes >= 3 */
	for (i = 0; i < PL; i++) {
		a[i] = (char) IN.pk[i];
		b[i] = (char) (i < IN.len ? IN.pk[i] : IN.alt[i]);
	}
	for (i = 0; i < DLEN; i++) { d1[i] = (char) IN.dinit[i]; d2[i] = (char) IN.dinit[i]; }
	p1 = a + IN.off;
	p2 = b + IN.off;
	r1 = readname_loop(a, (int) IN.len, &p1, d1, IN.length, D);
	r2 = readname_loop(b, (int) IN.len, &p2, d2, IN.length, D);
	VASSERT(r1 == r2, "name length does not depend on bytes beyond the datagram");
	VASSERT(p1 - a == p2 - b, "read position after the name does not depend on bytes beyond the datagram");
	VASSERT(r1 >= 0 && (unsigned) r1 <= IN.length, "name (with terminator) fits the destination length");
	VASSUME(IN.k < DLEN);
	VASSERT(d1[IN.k] == d2[IN.k], "name bytes do not depend on bytes beyond the datagram");
	if (IN.k >= IN.length)
		VASSERT(d1[IN.k] == (char) IN.dinit[IN.k], "nothing is written beyond the destination length");
	/* (no terminator claim: a name cut short by an unusable pointer is returned unterminated; every caller
	 * pre-zeroes the destination) */
	VASSERT(p1 - a <= (long) IN.len + 1, "read position is at most one past the datagram");
	if (r1 > 4 && IN.len < PL) VREACH("name decoded from a datagram shorter than the buffer");
	if (r1 > 3 && IN.len + 1 == PL) VREACH("name decoded from a datagram that fills the buffer up to the spare byte");
	VREACH("end");
}
#ifdef VREPLAY
int main(void) { harness(); puts("REPLAY-OK"); return 0; }
#endif
