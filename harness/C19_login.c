/* C19: login response = MD5(first 32 password bytes XOR 8 x big-endian challenge).
 * MODE 1: real login.c login_calculate() with md5_* replaced by a recorder: the 32 bytes handed to
 *         MD5 are exactly pass[i] ^ challenge byte (big-endian, repeated), nothing else is hashed,
 *         the digest is copied out unchanged; buflen < 16 writes nothing.
 * MODE 2: real md5.c == independent RFC 1321 MD5 on 32-byte messages with K symbolic bytes at
 *         cell-chosen positions over a fixed pattern, i.e. a small bounded sub-space (MD5 is built
 *         to resist SAT: 1 symbolic byte ~ 60 s, 2 bytes do not finish; stated in the evidence).
 * MODE 3: real login_calculate + real md5.c on concrete vectors against the reference MD5
 *         (whole pipeline, incl. RFC 1321 test suite for md5.c).
 */
#include "vharness.h"
#include "login.h"
#include "md5.h"

#ifndef K
#define K 1
#endif
#ifndef POS0
#define POS0 0
#endif
#ifndef BASE
#define BASE 17
#endif

struct vin {
	char pass[32];
	int seed;
	int buflen;
	unsigned char outinit[20];
	unsigned char digest[16];	/* what the recorded MD5 "returns" */
	unsigned i;
	unsigned char pos[K], val[K];
	unsigned char base;
};
#ifdef VREPLAY
#include "replay_in.h"
static struct vin IN = VIN_INIT;
#else
struct vin nondet_vin(void);
static struct vin IN;
#endif

/* ---------- independent MD5 (RFC 1321), single-block messages only ---------- */
static const uint32_t RT[64] = {
0xd76aa478u,0xe8c7b756u,0x242070dbu,0xc1bdceeeu,0xf57c0fafu,0x4787c62au,0xa8304613u,0xfd469501u,0x698098d8u,0x8b44f7afu,0xffff5bb1u,0x895cd7beu,0x6b901122u,0xfd987193u,0xa679438eu,0x49b40821u,0xf61e2562u,0xc040b340u,0x265e5a51u,0xe9b6c7aau,0xd62f105du,0x02441453u,0xd8a1e681u,0xe7d3fbc8u,0x21e1cde6u,0xc33707d6u,0xf4d50d87u,0x455a14edu,0xa9e3e905u,0xfcefa3f8u,0x676f02d9u,0x8d2a4c8au,0xfffa3942u,0x8771f681u,0x6d9d6122u,0xfde5380cu,0xa4beea44u,0x4bdecfa9u,0xf6bb4b60u,0xbebfbc70u,0x289b7ec6u,0xeaa127fau,0xd4ef3085u,0x04881d05u,0xd9d4d039u,0xe6db99e5u,0x1fa27cf8u,0xc4ac5665u,0xf4292244u,0x432aff97u,0xab9423a7u,0xfc93a039u,0x655b59c3u,0x8f0ccc92u,0xffeff47du,0x85845dd1u,0x6fa87e4fu,0xfe2ce6e0u,0xa3014314u,0x4e0811a1u,0xf7537e82u,0xbd3af235u,0x2ad7d2bbu,0xeb86d391u };
static const unsigned char RS[4][4] = { {7, 12, 17, 22}, {5, 9, 14, 20}, {4, 11, 16, 23}, {6, 10, 15, 21} };
static uint32_t rol(uint32_t x, unsigned s) { return (x << s) | (x >> (32 - s)); }
static void ref_md5(const unsigned char *msg, unsigned len /* <= 55 */, unsigned char out[16])
{
	unsigned char blk[64];
	uint32_t M[16], a = 0x67452301u, b = 0xefcdab89u, c = 0x98badcfeu, d = 0x10325476u, A, B, C, D;
	unsigned i;
	for (i = 0; i < 64; i++) blk[i] = 0;
	for (i = 0; i < len; i++) blk[i] = msg[i];
	blk[len] = 0x80;
	blk[56] = (unsigned char) ((len * 8) & 0xff);
	blk[57] = (unsigned char) ((len * 8) >> 8);
	for (i = 0; i < 16; i++)
		M[i] = (uint32_t) blk[4 * i] | ((uint32_t) blk[4 * i + 1] << 8) | ((uint32_t) blk[4 * i + 2] << 16) | ((uint32_t) blk[4 * i + 3] << 24);
	A = a; B = b; C = c; D = d;
	for (i = 0; i < 64; i++) {
		uint32_t F, t;
		unsigned g, r = i / 16;
		if (r == 0) { F = (B & C) | (~B & D); g = i; }
		else if (r == 1) { F = (D & B) | (~D & C); g = (5 * i + 1) % 16; }
		else if (r == 2) { F = B ^ C ^ D; g = (3 * i + 5) % 16; }
		else { F = C ^ (B | ~D); g = (7 * i) % 16; }
		t = D; D = C; C = B;
		B = B + rol(A + F + RT[i] + M[g], RS[r][i % 4]);
		A = t;
	}
	a += A; b += B; c += C; d += D;
	for (i = 0; i < 4; i++) {
		out[i] = (unsigned char) (a >> (8 * i)); out[4 + i] = (unsigned char) (b >> (8 * i));
		out[8 + i] = (unsigned char) (c >> (8 * i)); out[12 + i] = (unsigned char) (d >> (8 * i));
	}
}

#if MODE == 1
/* recorder in place of md5.c */
static int n_init, n_append, n_finish, rec_len;
static unsigned char rec[32];
void md5_init(md5_state_t *pms) { (void) pms; n_init++; }
void md5_append(md5_state_t *pms, const md5_byte_t *data, int nbytes)
{
	int i;
	(void) pms;
	n_append++;
	rec_len = nbytes;
	for (i = 0; i < 32; i++)
		if (i < nbytes) rec[i] = data[i];
}
void md5_finish(md5_state_t *pms, md5_byte_t digest[16])
{
	int i;
	(void) pms;
	n_finish++;
	for (i = 0; i < 16; i++) digest[i] = IN.digest[i];
}
#endif

void harness(void)
{
#ifndef VREPLAY
	IN = nondet_vin();
#endif
#if MODE == 1
	{
		unsigned char out[20];
		uint32_t s = (uint32_t) IN.seed;
		unsigned char sb[4] = { (unsigned char) (s >> 24), (unsigned char) (s >> 16), (unsigned char) (s >> 8), (unsigned char) s };
		memcpy(out, IN.outinit, 20);
		VASSUME(IN.buflen >= 0 && IN.buflen <= 20);
		VASSUME(IN.i < 32);
		login_calculate((char *) out, IN.buflen, IN.pass, IN.seed);
		if (IN.buflen < 16) {
			VASSERT(n_append == 0 && n_finish == 0, "buffer < 16 bytes: nothing computed");
			VASSERT(out[IN.i % 20] == IN.outinit[IN.i % 20], "buffer < 16 bytes: nothing written");
			VREACH("short buffer");
		} else {
			VASSERT(n_init == 1 && n_append == 1 && n_finish == 1, "exactly one MD5 over one chunk");
			VASSERT(rec_len == 32, "exactly 32 bytes are hashed");
			VASSERT(rec[IN.i] == (unsigned char) (IN.pass[IN.i] ^ sb[IN.i % 4]),
				"hashed byte i == password byte i XOR big-endian challenge byte (i mod 4)");
			VASSERT(out[IN.i % 16] == IN.digest[IN.i % 16], "output is the MD5 digest, unchanged");
			VASSERT(out[16 + IN.i % 4] == IN.outinit[16 + IN.i % 4], "only 16 bytes are written");
			VREACH("computed");
		}
	}
#elif MODE == 2
	{
		unsigned char msg[32], d1[16], d2[16];
		md5_state_t st;
		unsigned i, k;
		for (i = 0; i < 32; i++) msg[i] = (unsigned char) (BASE + 37 * i);
		for (k = 0; k < K; k++) {
			msg[(POS0 + 13 * k) % 32] = IN.val[k];	/* positions are cell parameters */
		}
		md5_init(&st);
		md5_append(&st, msg, 32);
		md5_finish(&st, d1);
		ref_md5(msg, 32, d2);
		VASSUME(IN.i < 16);
		VASSERT(d1[IN.i] == d2[IN.i], "md5.c digest == independent RFC 1321 MD5 (32-byte message)");
	}
#else
	{
		/* concrete vectors: RFC 1321 suite through md5.c and the reference, then the login pipeline */
		static const char *tv[] = { "", "a", "abc", "message digest", "abcdefghijklmnopqrstuvwxyz" };
		static const unsigned char exp0[16] = { 0xd4, 0x1d, 0x8c, 0xd9, 0x8f, 0x00, 0xb2, 0x04, 0xe9, 0x80, 0x09, 0x98, 0xec, 0xf8, 0x42, 0x7e };
		static const unsigned char exp2[16] = { 0x90, 0x01, 0x50, 0x98, 0x3c, 0xd2, 0x4f, 0xb0, 0xd6, 0x96, 0x3f, 0x7d, 0x28, 0xe1, 0x7f, 0x72 };
		unsigned char d1[16], d2[16], x[32];
		char pass[32] = "iodine is cool";	/* zero padded, as the programs do */
		char lc[16];
		md5_state_t st;
		unsigned t, i;
		for (t = 0; t < 5; t++) {
			unsigned len = (unsigned) strlen(tv[t]);
			md5_init(&st);
			md5_append(&st, (const md5_byte_t *) tv[t], (int) len);
			md5_finish(&st, d1);
			ref_md5((const unsigned char *) tv[t], len, d2);
			VASSERT(memcmp(d1, d2, 16) == 0, "md5.c == reference on the RFC 1321 test strings");
			if (t == 0) VASSERT(memcmp(d1, exp0, 16) == 0, "MD5(\"\") is the RFC value");
			if (t == 2) VASSERT(memcmp(d1, exp2, 16) == 0, "MD5(\"abc\") is the RFC value");
		}
		{
			static const int seeds[4] = { 0, 1, 0x12345678, -1 };
			for (t = 0; t < 4; t++) {
				uint32_t s = (uint32_t) seeds[t];
				for (i = 0; i < 32; i++)
					x[i] = (unsigned char) pass[i] ^ (unsigned char) (s >> (8 * (3 - i % 4)));
				ref_md5(x, 32, d2);
				login_calculate(lc, 16, pass, seeds[t]);
				VASSERT(memcmp(lc, d2, 16) == 0, "login_calculate == MD5(pass XOR challenge) via the reference MD5");
			}
		}
	}
#endif
	VREACH("end");
}
#ifdef VREPLAY
int main(void) { harness(); puts("REPLAY-OK"); return 0; }
#endif
