/* C13: what reaches system() from peer-supplied text.
 * Real code: src/tun.c (LINUX variant, textually included so that the static if_name is reachable):
 *   MODE 1  tun_setip(ip, other_ip, netbits)  with two arbitrary strings and an arbitrary bit count
 *   MODE 2  tun_setmtu(mtu)                   with an arbitrary number
 * (MODE 3, the client's handshake_login() feeding an arbitrary login reply into the real tun.c, lives in
 *  C06_client.c with -DREAL_TUN.)
 * Observation point: the system() stub. Oracle (written from the statement, independent of tun.c): the command is
 *   "<path>ifconfig <ifname> <dq> <dq> netmask <dq>"  or  "<path>ifconfig <ifname> mtu <n>", 200 < n <= 1500,
 * <dq> = four decimal numbers 0..255 of 1-3 digits separated by single dots, nothing else.
 * libc models (CBMC build only, part of the trusted base): snprintf for %s/%u/%d, inet_ntoa, htonl (builtin).
 */
#include <stdint.h>
#include <stddef.h>
#include <string.h>
#include <stdlib.h>
#include <stdio.h>
#include "vharness.h"
#ifndef NS
#define NS 18		/* longest address text considered ("255.255.255.255" is 15) + room for trailing junk */
#endif
struct vin {
	char ip[NS + 1], other[NS + 1];
	int netbits;
	unsigned mtu;
	char ifname[6];
};
#ifdef VREPLAY
#include "replay_in.h"
static struct vin IN = VIN_INIT;
#else
struct vin nondet_vin(void);
static struct vin IN;
#endif

static int vsys_calls;
static char vsys_cmd[600];
int vsys_system(const char *cmd)
{
	size_t i;
	vsys_calls++;
	for (i = 0; i < sizeof(vsys_cmd) - 1 && cmd[i]; i++) vsys_cmd[i] = cmd[i];
	vsys_cmd[i] = 0;
	return 0;
}
#define system vsys_system

#ifndef VREPLAY
#include <stdarg.h>
#include <netinet/in.h>
#include <arpa/inet.h>
/* snprintf: literal text, %s, %u, %d; returns the length that would have been written (ISO C) */
static size_t vsn_put(char *s, size_t n, size_t pos, char c) { if (pos + 1 < n) s[pos] = c; return pos + 1; }
static size_t vsn_num(char *s, size_t n, size_t pos, unsigned long v)
{
	char tmp[12]; int k = 0;
	do { tmp[k++] = (char) ('0' + v % 10); v /= 10; } while (v && k < 11);
	while (k > 0) pos = vsn_put(s, n, pos, tmp[--k]);
	return pos;
}
int snprintf(char *s, size_t n, const char *fmt, ...)
{
	va_list ap;
	size_t pos = 0, i;
	va_start(ap, fmt);
	for (i = 0; fmt[i]; i++) {
		if (fmt[i] != '%') { pos = vsn_put(s, n, pos, fmt[i]); continue; }
		i++;
		if (fmt[i] == 's') {
			const char *a = va_arg(ap, const char *);
			size_t j;
			for (j = 0; a[j]; j++) pos = vsn_put(s, n, pos, a[j]);
		} else if (fmt[i] == 'u') {
			pos = vsn_num(s, n, pos, va_arg(ap, unsigned));
		} else if (fmt[i] == 'd') {
			int v = va_arg(ap, int);
			if (v < 0) { pos = vsn_put(s, n, pos, '-'); pos = vsn_num(s, n, pos, (unsigned long) (-(long) v)); }
			else pos = vsn_num(s, n, pos, (unsigned long) v);
		} else {
			__CPROVER_assert(0, "PROP:model: snprintf conversion not modelled");
		}
	}
	va_end(ap);
	if (n > 0) s[pos < n ? pos : n - 1] = 0;
	return (int) pos;
}
char *inet_ntoa(struct in_addr in)
{
	static char b[16];
	const unsigned char *p = (const unsigned char *) &in.s_addr;
	size_t pos = 0; int k;
	for (k = 0; k < 4; k++) {
		pos = vsn_num(b, sizeof(b), pos, p[k]);
		if (k < 3) pos = vsn_put(b, sizeof(b), pos, '.');
	}
	b[pos] = 0;
	return b;
}
int fprintf(FILE *f, const char *fmt, ...) { (void) f; (void) fmt; return 0; }
void warn(const char *fmt, ...) { (void) fmt; }
void warnx(const char *fmt, ...) { (void) fmt; }
#endif

#include "tun.c"

/* ---- oracle ---- */
static int o_dq(const char *s, size_t *pos)
{
	int part;
	size_t p = *pos;
	for (part = 0; part < 4; part++) {
		int digits = 0, v = 0;
		while (s[p] >= '0' && s[p] <= '9' && digits < 4) { v = v * 10 + (s[p] - '0'); digits++; p++; }
		if (digits < 1 || digits > 3 || v > 255) return 0;
		if (part < 3) { if (s[p] != '.') return 0; p++; }
	}
	*pos = p;
	return 1;
}
static int o_lit(const char *s, size_t *pos, const char *lit)
{
	size_t i;
	for (i = 0; lit[i]; i++) if (s[*pos + i] != lit[i]) return 0;
	*pos += i;
	return 1;
}
#ifndef IFCONFIGPATH
#define IFCONFIGPATH "PATH=/sbin:/bin "
#endif

void harness(void)
{
	size_t pos = 0;
	int i, r;
#ifndef VREPLAY
	IN = nondet_vin();
#endif
	VASSUME(IN.ip[NS] == 0 && IN.other[NS] == 0);
	/* interface name: chosen locally (-d option / kernel), not by the peer: a short fixed-alphabet name */
	for (i = 0; i < 5; i++) { VASSUME(IN.ifname[i] == 0 || (IN.ifname[i] >= 'a' && IN.ifname[i] <= 'z') || (IN.ifname[i] >= '0' && IN.ifname[i] <= '9')); if_name[i] = IN.ifname[i]; }
	if_name[5] = 0;
#if MODE == 1
	r = tun_setip(IN.ip, IN.other, IN.netbits);
	VASSERT(vsys_calls <= 1, "at most one configuration command");
	if (vsys_calls == 1) {
		VASSERT(o_lit(vsys_cmd, &pos, IFCONFIGPATH "ifconfig "), "command is the fixed ifconfig invocation");
		VASSERT(o_lit(vsys_cmd, &pos, if_name) && o_lit(vsys_cmd, &pos, " "), "followed by the local interface name");
		VASSERT(o_dq(vsys_cmd, &pos) && o_lit(vsys_cmd, &pos, " "), "first address is a strict dotted quad");
		VASSERT(o_dq(vsys_cmd, &pos) && o_lit(vsys_cmd, &pos, " netmask "), "second address is a strict dotted quad");
		VASSERT(o_dq(vsys_cmd, &pos) && vsys_cmd[pos] == 0, "netmask is a dotted quad and nothing follows");
		VASSERT(IN.netbits >= 0 && IN.netbits <= 32, "netmask bit count within 0..32");
		{
			size_t p2 = 0;
			VASSERT(o_dq(IN.ip, &p2) && IN.ip[p2] == 0, "accepted client address text is exactly a dotted quad");
			p2 = 0;
			VASSERT(o_dq(IN.other, &p2) && IN.other[p2] == 0, "accepted server address text is exactly a dotted quad");
		}
		VREACH("ifconfig issued");
	} else {
		VASSERT(r != 0, "refusal is reported to the caller");
		VREACH("rejected");
	}
#else
	r = tun_setmtu(IN.mtu);
	VASSERT(vsys_calls <= 1, "at most one configuration command");
	if (vsys_calls == 1) {
		unsigned v = 0; int d = 0;
		VASSERT(o_lit(vsys_cmd, &pos, IFCONFIGPATH "ifconfig "), "command is the fixed ifconfig invocation");
		VASSERT(o_lit(vsys_cmd, &pos, if_name) && o_lit(vsys_cmd, &pos, " mtu "), "interface name and mtu keyword");
		while (vsys_cmd[pos] >= '0' && vsys_cmd[pos] <= '9' && d < 6) { v = v * 10 + (unsigned) (vsys_cmd[pos] - '0'); pos++; d++; }
		VASSERT(d >= 1 && vsys_cmd[pos] == 0, "mtu is a decimal number and nothing follows");
		VASSERT(v == IN.mtu && v > 200 && v <= 1500, "mtu within the accepted range");
		VREACH("mtu set");
	} else {
		VASSERT(r != 0, "refusal is reported to the caller");
		VREACH("mtu rejected");
	}
#endif
	VREACH("end");
}
#ifdef VREPLAY
int main(void) { harness(); puts("REPLAY-OK"); return 0; }
#endif
