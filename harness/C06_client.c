/* C06: the client's reply path beyond the record decoder. Real code: client.c (included).
 * dns_decode() is replaced by its contract (what the C12/C06 decoder cells establish): result
 * <= caller's capacity, arbitrary bytes, arbitrary id/type/rcode/first name char; for CNAME/MX/SRV
 * results the text is NUL terminated inside the capacity.
 * MODE 1: read_dns_withq(): hostname/TXT payload decoding (dns_namedec), MX/SRV reassembly, raw frames.
 * MODE 2: handshake reply parsers (cell -DHS=n) driven through the real handshake_waitdns() and
 *         read_dns_withq(); select() says "readable" VC_NREPLY times, then times out.
 * Buffers: the 64 KiB locals are scaled to B and the 4096-byte reply buffers to INSZ by the
 * scaling transform (sizeof-consistent), so a reply of exactly INSZ bytes is within the bound.
 */
#define VC_NOW IN.now
#define VC_STUB_DECODE
#define VC_STUB_ENCODE
#define VC_STUB_LOGIN	/* the MD5 response is C19's subject; here: 16 arbitrary bytes */
#ifndef OB
#define OB 40		/* reply bytes delivered by the decode contract */
#endif
#ifndef RB
#define RB 24		/* raw datagram bytes delivered by recvfrom */
#endif
#ifndef NREPLY
#define NREPLY 2
#endif
#include <stdint.h>
struct vreply {
	int rv;
	unsigned char out[OB];
	unsigned short id, type, rcode;
	char c0;
};
struct vin {
	long now;
	struct vreply rep[NREPLY];
	unsigned char raw[RB];
	int rawlen;
	unsigned char conn_raw, userid, tsel;
	unsigned short chunkid;
	int zret; unsigned long zlen;
	int arg;
	unsigned k;
	char hash[16];
};
#ifdef VREPLAY
#include "replay_in.h"
static struct vin IN = VIN_INIT;
#else
struct vin nondet_vin(void);
static struct vin IN;
#endif
#include "vclient.h"
#include <stdarg.h>

static int vc_decodes, vc_selects, vc_tunwrites;

/* contract of dns_decode(QR_ANSWER) */
int vc_dns_decode(char *buf, size_t buflen, struct query *q, qr_t qr, char *packet, size_t packetlen)
{
	const struct vreply *r = &IN.rep[vc_decodes < NREPLY ? vc_decodes : NREPLY - 1];
	unsigned i;
	(void) qr; (void) packet; (void) packetlen;
	vc_decodes++;
	q->id = r->id; q->rcode = r->rcode; q->type = r->type;
#if MODE == 2
	q->type = T_NULL;	/* handshake cells: NULL-type replies (see harness()) */
#endif
	q->name[0] = r->c0; q->name[1] = 0;
	if (r->rv <= 0) return r->rv;
	VASSUME((size_t) r->rv <= buflen && r->rv <= OB);
	for (i = 0; i < OB; i++)
		if ((int) i < r->rv) buf[i] = (char) r->out[i];
	if (r->type == T_CNAME || r->type == T_MX || r->type == T_SRV) {
		/* text results are NUL terminated inside the capacity */
		VASSUME((size_t) r->rv < buflen);
		buf[r->rv] = 0;
	}
	return r->rv;
}
void vc_login_calculate(char *buf, int buflen, const char *pass, int seed)
{
	int i;
	(void) pass; (void) seed;
	if (buflen < 16) return;
	for (i = 0; i < 16; i++) buf[i] = IN.hash[i];
}
int vc_dns_encode(char *buf, size_t buflen, struct query *q, qr_t qr, const char *data, size_t datalen)
{
	(void) buf; (void) q; (void) qr; (void) data; (void) datalen;
	return buflen >= 17 ? 17 : 0;
}
ssize_t recvfrom(int fd, void *buf, size_t len, int flags, struct sockaddr *from, socklen_t *fromlen)
{
	int i;
	(void) fd; (void) flags; (void) from; (void) fromlen;
	if (IN.rawlen < 0) return -1;
	VASSUME(IN.rawlen <= RB && (size_t) IN.rawlen <= len);
	for (i = 0; i < RB; i++)
		if (i < IN.rawlen) ((unsigned char *) buf)[i] = IN.raw[i];
	return IN.rawlen;
}
ssize_t recv(int fd, void *buf, size_t len, int flags) { return recvfrom(fd, buf, len, flags, 0, 0); }
int select(int n, fd_set *r, fd_set *w, fd_set *e, struct timeval *tv)
{
	(void) n; (void) r; (void) w; (void) e; (void) tv;
	return vc_selects++ < NREPLY ? 1 : 0;
}
ssize_t read_tun(int fd, char *buf, size_t len) { (void) fd; (void) buf; (void) len; return 0; }
int write_tun(int fd, char *data, size_t len) { (void) fd; (void) data; (void) len; vc_tunwrites++; return 0; }
int tun_setip(const char *ip, const char *other, int netbits) { (void) ip; (void) other; (void) netbits; return 0; }
int tun_setmtu(const unsigned mtu) { (void) mtu; return 0; }
int uncompress(unsigned char *dest, unsigned long *destLen, const unsigned char *src, unsigned long srcLen)
{
	(void) src; (void) srcLen;
	if (IN.zret != 0) return IN.zret;
	VASSUME(IN.zlen <= *destLen);
	*destLen = IN.zlen;
	if (IN.zlen > 0) dest[IN.zlen - 1] = 1;	/* touches the claimed output range */
	return 0;
}
int compress2(unsigned char *dest, unsigned long *destLen, const unsigned char *src, unsigned long srcLen, int level)
{
	(void) dest; (void) src; (void) srcLen; (void) level;
	*destLen = 0;
	return 0;
}
#ifndef VREPLAY
/* model of the one sscanf use: "%64[^-]-%64[^-]-%d-%d". Reads the NUL-terminated input only. */
int sscanf(const char *str, const char *fmt, ...)
{
	va_list ap;
	char *f[2];
	int *nums[2];
	int field, n = 0, pos = 0, i;
	va_start(ap, fmt);
	f[0] = va_arg(ap, char *); f[1] = va_arg(ap, char *);
	nums[0] = va_arg(ap, int *); nums[1] = va_arg(ap, int *);
	va_end(ap);
	for (field = 0; field < 2; field++) {
		int l = 0;
		for (i = 0; i < 64; i++) {
			char c = str[pos];
			if (c == 0 || c == '-') break;
			f[field][l++] = c;
			pos++;
		}
		if (l == 0) return n;
		f[field][l] = 0;
		n++;
		if (str[pos] != '-') return n;
		pos++;
	}
	for (field = 0; field < 2; field++) {
		int v = 0, d = 0;
		for (i = 0; i < 6; i++) {
			char c = str[pos];
			if (c < '0' || c > '9') break;
			v = v * 10 + (c - '0');
			d++; pos++;
		}
		if (d == 0) return n;
		*nums[field] = v;
		n++;
		if (field == 0) { if (str[pos] != '-') return n; pos++; }
	}
	return n;
}
#endif

void harness(void)
{
#ifndef VREPLAY
	IN = nondet_vin();
#endif
	running = 1;
	userid = (char) (IN.userid & 15);
	userid_char = "0123456789abcdef"[IN.userid & 15];
	userid_char2 = "0123456789ABCDEF"[IN.userid & 15];
	chunkid = IN.chunkid;
	topdomain = "t.io";
	password = "0123456789012345678901234567890";
	VASSUME(IN.now >= 0 && IN.now < 0x7fffffff);
#if MODE == 1
	{
		char buf[OB];
		struct query q;
		int rv, before;
		unsigned i;
		static const unsigned short types[8] = { T_NULL, T_PRIVATE, T_TXT, T_SRV, T_MX, T_CNAME, T_A, 999 };
		(void) types;
#ifdef RAWCONN
		conn = CONN_RAW_UDP;
#else
		conn = CONN_DNS_NULL;
#endif
#ifdef TSEL
		IN.rep[0].type = TSEL;		/* cell: record type */
#else
		VASSUME(IN.rep[0].type == types[IN.tsel & 7]);
#endif
#ifdef CODEC
		IN.rep[0].out[0] = CODEC;	/* cell: codec letter of the (first) name / text */
#endif
		for (i = 0; i < OB; i++) buf[i] = (char) 0x55;
		q.id = 0; q.name[0] = 0;
		before = vc_tunwrites;
		rv = read_dns_withq(3, 4, buf, OB, &q);
		VASSERT(rv <= OB, "reply reader reports at most the caller's capacity");
		if (conn == CONN_DNS_NULL)
			VASSERT(vc_tunwrites == before, "DNS-mode reply reader never writes to the tun device itself");
#if !defined(RAWCONN) && (TSEL == 15 || TSEL == 33)
		if (rv > 2) VREACH("MX/SRV reply reassembled");
#elif !defined(RAWCONN) && TSEL == 16 && CODEC != '?'
		if (rv > 2) VREACH("TXT reply decoded");
#elif !defined(RAWCONN) && TSEL == 5
		if (rv > 2) VREACH("CNAME reply decoded");
#elif defined(RAWCONN)
		if (vc_tunwrites > before) VREACH("raw frame delivered");
#endif
	}
#else
	{
		int seed = 0, r = 0;
		conn = CONN_DNS_NULL;
		do_qtype = T_NULL;
		downenc = 'T';
		lazymode = 1;
		/* replies are NULL-type here (payload used as is); hostname/TXT decoding is the reply-reader cells' subject */
		IN.rep[0].type = T_NULL;
		IN.rep[NREPLY - 1].type = T_NULL;
		(void) r;
#if HS == 1
		r = handshake_version(3, &seed);
		if (r == 0) VREACH("version accepted");
#elif HS == 2
		r = handshake_login(3, 0x1234567);	/* concrete challenge: the hash is not what this cell is about */
		if (r == 0) VREACH("login reply parsed");
#elif HS == 3
		handshake_switch_codec(3, 6);
		if (dataenc == &base64_ops) VREACH("codec switched");
#elif HS == 4
		downenc = 'S';
		handshake_switch_downenc(3);
#elif HS == 5
		r = handshake_upenctest(3, "aAbBcCdDeEfF-");
		if (r == 1) VREACH("bounce identical");
#elif HS == 6
		r = handshake_downenctest(3, 'S');
		r = handshake_qtypetest(3, 1);
		r = handshake_edns0_check(3);
#elif HS == 7
		handshake_try_lazy(3);
#elif HS == 10
		handshake_lazyoff(3);
#elif HS == 11
		handshake_set_fragsize(3, IN.arg);
#elif HS == 8
		{
			int maxf = 0;
			char in[OB];
			unsigned i;
			VASSUME(IN.rep[0].rv >= 1 && IN.rep[0].rv <= OB);
			for (i = 0; i < OB; i++) in[i] = (char) IN.rep[0].out[i];
			r = fragsize_check(in, IN.rep[0].rv, IN.arg, &maxf);
			if (r == 1 && maxf > 0) VREACH("fragment size accepted");
		}
#elif HS == 9
		r = handshake_raw_udp(3, IN.arg);
#endif
	}
#endif
	VREACH("end");
}
#ifdef VREPLAY
int main(void) { harness(); puts("REPLAY-OK"); return 0; }
#endif
