/* Common harness prelude: one source, two builds.
 *  - CBMC build (default): inputs are one typed nondet struct `IN`, property
 *    assertions are __CPROVER_assert, reach-witnesses are assert(0) that MUST fail.
 *  - Native replay build (-DVREPLAY): `IN` is initialised from the counterexample
 *    (replay_in.h generated from the CBMC trace), assumptions abort with exit 78,
 *    assertions print and exit 1; ASan/UBSan catch the memory/UB checks.
 */
#ifndef VHARNESS_H
#define VHARNESS_H
#include <stddef.h>
#include <stdint.h>
#include <string.h>

#ifdef VREPLAY
#include <stdio.h>
#include <stdlib.h>
#define VASSUME(c) do { if (!(c)) { fprintf(stderr, "REPLAY-ASSUME-FALSE: %s (%s:%d)\n", #c, __FILE__, __LINE__); exit(78); } } while (0)
#define VASSERT(c, msg) do { if (!(c)) { fprintf(stderr, "REPLAY-ASSERT-FAILED: %s (%s:%d)\n", msg, __FILE__, __LINE__); fflush(stderr); exit(1); } } while (0)
#define VREACH(label) do { } while (0)
#define VIN_DEFINE(T) static T IN =
#define VIN_LOAD() do { } while (0)
#define VHINT_EQ(x, k) do { } while (0)
/* bind a state field to an input value: native build assigns */
#define VBIND(lhs, val) do { (lhs) = (val); } while (0)
#else
/* bind a state field to an input value: CBMC build constrains the (nondet) object instead of writing it */
#define VBIND(lhs, val) __CPROVER_assume((lhs) == (val))
#define VASSUME(c) __CPROVER_assume(c)
#define VASSERT(c, msg) __CPROVER_assert((c), "PROP:" msg)
/* reachability witness: must come back FAILED, otherwise the harness is vacuous */
#define VREACH(label) __CPROVER_assert(0, "REACH:" label)
/* semantic no-op under its own assumption; gives symex a constant */
#define VHINT_EQ(x, k) do { __CPROVER_assume((x) == (k)); (x) = (k); } while (0)
#endif

#endif
