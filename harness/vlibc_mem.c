/* vmemcpy: byte-loop stand-in for memcpy in units compiled with -Dmemcpy=vmemcpy (CBMC build only). */
#include <stddef.h>
void *vmemcpy(void *dst, const void *src, size_t n)
{
	size_t i;
	for (i = 0; i < n; i++)
		((unsigned char *) dst)[i] = ((const unsigned char *) src)[i];
	return dst;
}
