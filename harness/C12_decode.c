/* C12 / C05 / C06: the DNS decoder interprets a datagram from its own bytes only, and safely.
 * Real code: dns.c dns_decode(), read.c readname()/readname_loop()/readdata()/readtxtbin().
 * Two runs of the real decoder in one query (2-safety by self-composition): the two receive
 * buffers agree on [0,len) and differ arbitrarily beyond; every observable output must be equal.
 * The receive buffer has PB bytes in total (the role of the 64 KiB stack buffer); len <= PB, so a
 * read beyond the buffer is a bounds violation (C05/C06) and a read in [len,PB) a residue
 * dependence (C12).
 * Cells: -DQR=0 (query, server side) | -DQR=1 -DQTYPE=<type> (answer, client side; the question
 * section is the concrete "\1a\0 QTYPE IN", the answer section is fully symbolic).
 */
#include "vharness.h"
#include "common.h"
#include "dns.h"
#include "vlibc.h"

#ifndef PB
#define PB 40
#endif
#ifndef OB
#define OB 24
#endif

#define NCALLS 10
#define NMB 6
struct vname { unsigned char adv, rlen, ret0; char bytes[NMB]; };
struct vin {
#ifdef STUBNAME
	struct vname nm[NCALLS];
#endif
	unsigned char pk[PB];
	unsigned char alt[PB];
	unsigned len, buflen, k;
	unsigned char outinit[OB];
};
#ifdef VREPLAY
#include "replay_in.h"
static struct vin IN = VIN_INIT;
#else
struct vin nondet_vin(void);
static struct vin IN;
void warnx(const char *fmt, ...) { (void) fmt; }
#endif

#ifdef STUBNAME
/* Lemma B: dns.c is compiled with readname -> vstub_readname. The stub is the *contract* that
 * lemma A (C12_readname.c) establishes for the real reader: its result is a function of the
 * datagram's own bytes (here: the same arbitrary values in both runs), it writes at most `length`
 * bytes of dst, NUL terminated, and leaves *src at most one past the datagram. */
static int vs_run, vs_calls[2];
static long vs_off[2][NCALLS];
int vstub_readname(char *packet, int packetlen, char **src, char *dst, size_t length)
{
	int c = vs_calls[vs_run]++;
	long off = *src - packet;
	const struct vname *n;
	unsigned i, r;
	VASSERT(c < NCALLS, "model: number of name reads within the stub's bound");
	if (c >= NCALLS) return 0;
	vs_off[vs_run][c] = off;
	VASSERT(off >= 0 && off <= packetlen, "name reader is only called inside the datagram (its precondition)");
	n = &IN.nm[c];
#if QR == 1
	if (c == 0) {
		/* the cell's concrete question "\1a\0": the real reader returns "a" and advances by exactly 3 */
		dst[0] = 'a'; dst[1] = 0;
		*src += 3;
		return 2;
	}
#endif
	if (n->ret0) return 0;
	r = n->rlen;
	VASSUME(r >= 1 && r <= NMB && r <= length);
	for (i = 0; i < NMB; i++)
		if (i < r) dst[i] = (i == r - 1) ? 0 : n->bytes[i];
	VASSUME(n->adv >= 1 && off + n->adv <= (long) packetlen + 1);
	*src += n->adv;
	return (int) r;
}
#endif

void harness(void)
{
	char a[PB], b[PB];
	char o1[OB], o2[OB];
	struct query q1, q2;
	int r1, r2;
	unsigned i;
#ifndef VREPLAY
	IN = nondet_vin();
#endif
	/* a UDP payload (<= 65507) never fills the 65536-byte receive buffer: at least one spare byte */
	VASSUME(IN.len < PB);
#if QR == 1
	/* concrete question section for the cell's query type */
	VASSUME(IN.len >= 19);
	IN.pk[4] = 0; IN.pk[5] = 1;					/* qdcount 1 */
	IN.pk[12] = 1; IN.pk[13] = 'a'; IN.pk[14] = 0;
	IN.pk[15] = (unsigned char) (QTYPE >> 8); IN.pk[16] = (unsigned char) (QTYPE & 0xff);
	IN.pk[17] = 0; IN.pk[18] = 1;
#endif
	for (i = 0; i < PB; i++) {
		a[i] = (char) IN.pk[i];
#if QR == 1
		if (i < 19) { b[i] = a[i]; continue; }	/* len >= 19: keeps the cell's question concrete in both runs */
#endif
		b[i] = (char) (i < IN.len ? IN.pk[i] : IN.alt[i]);
	}
	for (i = 0; i < OB; i++) { o1[i] = (char) IN.outinit[i]; o2[i] = (char) IN.outinit[i]; }
	memset(&q1, 0, sizeof(q1));
	memset(&q2, 0, sizeof(q2));
	VASSUME(IN.buflen <= OB);
#ifdef STUBNAME
#define RUN(k) vs_run = (k)
#else
#define RUN(k)
#endif
#if QR == 0
	RUN(0); r1 = dns_decode(NULL, 0, &q1, QR_QUERY, a, IN.len);
	RUN(1); r2 = dns_decode(NULL, 0, &q2, QR_QUERY, b, IN.len);
#else
	VASSUME(IN.buflen >= 1);
	RUN(0); r1 = dns_decode(o1, IN.buflen, &q1, QR_ANSWER, a, IN.len);
	RUN(1); r2 = dns_decode(o2, IN.buflen, &q2, QR_ANSWER, b, IN.len);
#endif
#ifdef STUBNAME
	VASSERT(vs_calls[0] == vs_calls[1], "both runs read the same number of names");
	for (i = 0; i < NCALLS; i++)
		if ((int) i < vs_calls[0] && (int) i < vs_calls[1])
			VASSERT(vs_off[0][i] == vs_off[1][i], "names are read at offsets that do not depend on bytes beyond the datagram");
#endif
	VASSERT(r1 == r2, "decode result does not depend on bytes beyond the datagram");
	VASSERT(q1.id == q2.id && q1.type == q2.type && q1.rcode == q2.rcode,
		"decoded id/type/rcode do not depend on bytes beyond the datagram");
	VASSUME(IN.k < QUERY_NAME_SIZE);
	VASSERT(q1.name[IN.k] == q2.name[IN.k], "decoded name does not depend on bytes beyond the datagram");
	VASSERT(q1.name[QUERY_NAME_SIZE - 1] == 0, "decoded name is NUL terminated");
#if QR == 1
	VASSERT(r1 <= (int) IN.buflen, "decoder reports at most the caller's capacity");
	if (IN.k < OB)
		VASSERT(o1[IN.k] == o2[IN.k], "decoded payload does not depend on bytes beyond the datagram");
	if (IN.k < OB && IN.k >= IN.buflen)
		VASSERT(o1[IN.k] == (char) IN.outinit[IN.k], "decoder writes nothing beyond the caller's capacity");
	if (r1 >= 2) VREACH("answer payload decoded");
#else
	if (r1 > 3 && IN.len < PB) VREACH("query name decoded");
	if (r1 > 0 && IN.len + 1 == PB) VREACH("datagram fills the receive buffer up to the spare byte");
#endif
	VREACH("end");
}
#ifdef VREPLAY
int main(void) { harness(); puts("REPLAY-OK"); return 0; }
#endif
