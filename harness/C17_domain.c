/* C17: tunnel-domain validation and query matching follow label boundaries exactly.
 * Real code: common.c check_topdomain(), query_datalen().
 * The reference functions below are written from the property statement, not from the code.
 * MODE 1: validation, fully symbolic string over all byte values (length <= DL)
 * MODE 2: matching, symbolic query name (<= QL) x symbolic accepted domain (<= DL)
 * MODE 3: validation on long strings shaped by symbolic label lengths (63/64, 128/129 edges)
 * MODE 4: matching on long names shaped the same way
 * MODE 5: reference == real on the vectors of tests/common.c (translator validation)
 */
#include "vharness.h"
#include <ctype.h>
int check_topdomain(char *, int, char **);
int query_datalen(const char *qname, const char *topdomain);

#ifndef DL
#define DL 8
#endif
#ifndef QL
#define QL 12
#endif
#define NLAB 3
#define LONGMAX 134

struct vin {
	char d[DL + 1];
	char q[QL + 1];
	int wild;
	unsigned char lab[NLAB];	/* label lengths for the shaped modes */
	unsigned char nlab, star, qextra, upper_at;
	char fill;
};
#ifdef VREPLAY
#include "replay_in.h"
static struct vin IN = VIN_INIT;
#else
struct vin nondet_vin(void);
static struct vin IN;
#endif

static int r_len(const char *s) { int n = 0; while (s[n]) n++; return n; }
static int r_okchar(char c)
{
	return (c >= 'a' && c <= 'z') || (c >= 'A' && c <= 'Z') || (c >= '0' && c <= '9') || c == '-';
}
/* 1 = accepted */
static int ref_valid(const char *s, int wild)
{
	int n = r_len(s), i, labels = 0, cur = 0, start = 0;
	if (n < 3 || n > 128) return 0;
	if (wild && s[0] == '*') {		/* a single leading "*." label */
		if (s[1] != '.') return 0;
		labels = 1;
		start = 2;
	}
	for (i = start; i < n; i++) {
		if (s[i] == '.') {
			if (cur == 0) return 0;
			labels++;
			cur = 0;
		} else {
			if (!r_okchar(s[i])) return 0;
			if (++cur > 63) return 0;
		}
	}
	if (cur == 0) return 0;
	labels++;
	return labels >= 2;
}
static char r_low(char c) { return (c >= 'A' && c <= 'Z') ? (char) (c - 'A' + 'a') : c; }
static int r_suffix_at(const char *q, int p, const char *d, int ld)
{
	int i;
	for (i = 0; i < ld; i++)
		if (r_low(q[p + i]) != r_low(d[i])) return 0;
	return 1;
}
/* data length, or -1 when q is not under the (accepted) domain d */
static int ref_datalen(const char *q, const char *d)
{
	int lq = r_len(q), ld = r_len(d), p, s;
	if (d[0] == '*') {
		const char *rest = d + 1;	/* ".rest" */
		int lr = ld - 1;
		p = lq - lr;			/* where ".rest" must start */
		if (p < 1) return -1;		/* need a non-empty label before it */
		if (!r_suffix_at(q, p, rest, lr)) return -1;
		s = p;				/* walk back over exactly one star-free label */
		while (s > 0 && q[s - 1] != '.') {
			if (q[s - 1] == '*') return -1;
			s--;
		}
		if (s == p) return -1;		/* empty label */
		return s;
	}
	p = lq - ld;
	if (p < 0) return -1;
	if (!r_suffix_at(q, p, d, ld)) return -1;
	if (p > 0 && q[p - 1] != '.') return -1;
	return p;
}
static int no_double_dot(const char *q)
{
	int i;
	for (i = 0; q[i]; i++)
		if (q[i] == '.' && q[i + 1] == '.') return 0;
	return 1;
}

static int shaped(char *out, int with_star)
{
	/* label lengths 1..70 of one fixed letter joined by dots; written position by position
	 * (constant indices, symbolic values) so that symex stays linear */
	int e[NLAB], total, i, p, off = with_star ? 2 : 0;
	VASSUME(IN.nlab >= 1 && IN.nlab <= NLAB);
	total = off;
	for (i = 0; i < NLAB; i++) {
		VASSUME(IN.lab[i] >= 1 && IN.lab[i] <= 70);
		if (i < IN.nlab) {
			total += IN.lab[i];
			e[i] = total;		/* position of the dot after label i (or the end) */
			if (i + 1 < IN.nlab) total++;
		} else
			e[i] = -1;
	}
	VASSUME(total < LONGMAX);
	for (p = 0; p < LONGMAX; p++) {
		char c = IN.fill;
		if (with_star && p == 0) c = '*';
		if (with_star && p == 1) c = '.';
		for (i = 0; i < NLAB; i++)
			if (p == e[i]) c = '.';
		if (p >= total) c = 0;
		out[p] = c;
	}
	out[LONGMAX] = 0;
	return total;
}

void harness(void)
{
#ifndef VREPLAY
	IN = nondet_vin();
#endif
#if MODE == 1
	{
		char *err = 0;
		int real, want;
		VASSUME(IN.d[DL] == 0);
		VASSUME(IN.wild == 0 || IN.wild == 1);
		real = check_topdomain(IN.d, IN.wild, &err);
		want = ref_valid(IN.d, IN.wild);
		VASSERT((real == 0) == (want == 1), "domain accepted exactly when the statement says so");
		VASSERT(real == 0 || real == 1, "validation result is 0 or 1");
		if (real == 0) VREACH("some domain accepted");
		if (real == 0 && IN.d[0] == '*') VREACH("wildcard domain accepted");
		if (real == 1) VREACH("some domain rejected");
	}
#elif MODE == 2
	{
		int real, want;
		VASSUME(IN.d[DL] == 0 && IN.q[QL] == 0);
		VASSUME(ref_valid(IN.d, 1));
		VASSUME(no_double_dot(IN.q));
		real = query_datalen(IN.q, IN.d);
		want = ref_datalen(IN.q, IN.d);
		VASSERT(real == want, "match result and data length equal the label-boundary reference");
		if (real > 0) VREACH("name under domain with data");
		if (real > 0 && IN.d[0] == '*') VREACH("wildcard match with data");
		if (real == -1) VREACH("name outside domain");
	}
#elif MODE == 3
	{
		char s[LONGMAX + 2];
		char *err = 0;
		int n, real, want;
		VASSUME(r_okchar(IN.fill));
		VASSUME(IN.wild == 0 || IN.wild == 1);
		n = shaped(s, IN.star & 1);
		real = check_topdomain(s, IN.wild, &err);
		want = ref_valid(s, IN.wild);
		VASSERT((real == 0) == (want == 1), "long domain accepted exactly when the statement says so");
		if (real == 0 && n == 128) VREACH("128-char domain accepted");
		if (real == 1 && n == 129) VREACH("129-char domain rejected");
		if (real == 0 && IN.lab[0] == 63) VREACH("63-char label accepted");
	}
#elif MODE == 4
	{
		/* long query name: shaped data labels + "." + symbolic short domain (possibly case-flipped) */
		char q[LONGMAX + DL + 4];
		int n, i, ld, real, want;
		VASSUME(IN.d[DL] == 0);
		VASSUME(ref_valid(IN.d, 1));
		VASSUME(IN.fill != 0 && IN.fill != '.');
		n = shaped(q, 0);
		ld = r_len(IN.d);
		for (i = 0; i < LONGMAX + DL + 3; i++) {
			int k = i - n - 1;	/* index into the domain */
			char c;
			if (i < n) continue;
			if (i == n) c = '.';
			else if (k < ld && k < DL) {
				c = IN.d[k];
				if (k == 0 && c == '*') c = 'x';	/* one label for the wildcard */
				else if (k == (IN.upper_at % DL) && c >= 'a' && c <= 'z') c = (char) (c - 'a' + 'A');
			} else c = 0;
			q[i] = c;
		}
		real = query_datalen(q, IN.d);
		want = ref_datalen(q, IN.d);
		VASSERT(real == want, "long name: match result equals the reference");
		if (real > 128) VREACH("long data part");
	}
#elif MODE == 5
	{
		static const struct { const char *s; int w; } v[] = {
			{"foo.0123456789.qwertyuiop.asdfghjkl.zxcvbnm.com", 0}, {".foo", 0}, {"", 0}, {"a", 0},
			{".a", 0}, {"a.", 0}, {"ab", 0}, {"a.b", 0}, {"abcde.gh", 0}, {"abcdefgh", 0},
			{"abc..defgh", 0}, {"abc.defgh.", 0}, {"*.a", 0}, {"*.a", 1}, {"b*.a", 1}, {"*b.a", 1},
			{"*.*.a", 1}, {"*.*.a", 0},
		};
		static const struct { const char *q, *d; int want; } m[] = {
			{"foobar.r.foo.com", "r.foo.com", 7}, {"foobar.r.FoO.Com", "r.foo.com", 7},
			{"foo.bar.r.FoO.Com", "r.foo.com", 8}, {".r.foo.com", "r.foo.com", 1},
			{"r.foo.com", "r.foo.com", 0}, {"R.foo.com", "r.foo.com", 0}, {"foo.com", "r.foo.com", -1},
			{"b.foo.com", "r.foo.com", -1}, {"*.foo.com", "r.foo.com", -1}, {"bar.foo.com", "r.foo.com", -1},
			{"foobar.a.foo.com", "*.foo.com", 7}, {"foo.Ab.foo.cOm", "*.foo.com", 4},
			{"foo.Abcd.Foo.com", "*.foo.com", 4}, {"***.STARs.foo.com", "*.foo.com", 4},
			{".a.foo.com", "*.foo.com", 1}, {".ab.foo.com", "*.foo.com", 1}, {"rr.foo.com", "*.foo.com", 0},
			{"b.foo.com", "*.foo.com", 0}, {"foo.com", "*.foo.com", -1}, {"aa.*.foo.com", "*.foo.com", -1},
			{"bar.r.boo.com", "*.foo.com", -1},
		};
		unsigned i;
		char buf[64];
		for (i = 0; i < sizeof(v) / sizeof(v[0]); i++) {
			char *err = 0;
			strcpy(buf, v[i].s);
			VASSERT((check_topdomain(buf, v[i].w, &err) == 0) == (ref_valid(buf, v[i].w) == 1),
				"reference agrees with real validation on the repo's own test vectors");
		}
		for (i = 0; i < sizeof(m) / sizeof(m[0]); i++) {
			VASSERT(ref_datalen(m[i].q, m[i].d) == m[i].want, "reference reproduces the repo's expected match results");
			VASSERT(query_datalen(m[i].q, m[i].d) == m[i].want, "real matcher reproduces the repo's expected match results");
		}
	}
#endif
	VREACH("end");
}
#ifdef VREPLAY
int main(void) { harness(); puts("REPLAY-OK"); return 0; }
#endif
