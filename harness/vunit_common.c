/* src/common.c with format_addr() replaced by a no-op in the CBMC build (it only feeds log
 * messages; the real one calls getnameinfo/inet_ntoa which have no CBMC model). */
#ifndef VREPLAY
#define format_addr real_format_addr_unused
#endif
#include "common.c"
#ifndef VREPLAY
#undef format_addr
char *format_addr(struct sockaddr_storage *sockaddr, int sockaddr_len)
{
	static char b[4] = "?";
	(void) sockaddr; (void) sockaddr_len;
	return b;
}
#endif
