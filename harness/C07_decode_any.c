/* C07/C05/C06: decoder and Base32 digit helpers on ARBITRARY text (not encoder output):
 * every byte value incl. >= 0x80, any length/capacity. Memory safety comes from CBMC's
 * built-in checks inside the real functions; output bounds are asserted.
 * Cell: -DOPS=... -DCID=... -DT=<max text length>
 */
#include "vharness.h"
#include "encoding.h"

#ifndef T
#define T 18
#endif
#define OUTBUF (T + 4)

struct vin {
	char txt[T + 1];
	unsigned slen, cap, g;
	unsigned char outinit[OUTBUF];
	char digit; int v;
};
#ifdef VREPLAY
#include "replay_in.h"
static struct vin IN = VIN_INIT;
#else
struct vin nondet_vin(void);
static struct vin IN;
#endif

void harness(void)
{
	unsigned char out[OUTBUF];
	size_t len;
	int d;
#ifndef VREPLAY
	IN = nondet_vin();
#endif
	VASSUME(IN.slen <= T);
	VASSUME(IN.cap <= T);
	memcpy(out, IN.outinit, OUTBUF);
	len = IN.cap;
	d = OPS.decode(out, &len, IN.txt, IN.slen);
	VASSERT(d >= 0 && (unsigned) d <= IN.cap, "decoder output length within capacity");
	VASSERT(out[d] == 0, "decoder output terminated");
	VASSUME(IN.g > IN.cap && IN.g < OUTBUF);
	VASSERT(out[IN.g] == IN.outinit[IN.g], "decoder: nothing written past capacity+terminator");
#if CID == 32
	/* the digit helpers are applied by the server to raw request bytes (a plain char) */
	{
		int r = b32_8to5(IN.digit);
		VASSERT(r >= 0 && r < 32, "b32_8to5 yields a 5-bit value");
		VASSUME(IN.v >= 0 && IN.v < 32);
		VASSERT(b32_8to5(b32_5to8(IN.v)) == IN.v, "b32_8to5(b32_5to8(v)) == v");
	}
#endif
	if (d == (int) IN.cap && IN.cap > 2) VREACH("filled to capacity");
	VREACH("end");
}
#ifdef VREPLAY
int main(void) { harness(); puts("REPLAY-OK"); return 0; }
#endif
