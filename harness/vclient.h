/* vclient.h: the real src/client.c, textually included (statics reachable), environment stubbed:
 *   recvfrom/recv -> harness-provided datagram   select -> VC_SELECT()   sendto -> counter
 *   time -> VC_NOW   rand -> 4   read_tun/write_tun/tun_setip/tun_setmtu -> harness (tun.c not linked)
 *   uncompress/compress2 -> harness
 * Optional: -DVC_STUB_DECODE replaces dns_decode by its contract (arbitrary result <= buflen),
 *           -DVC_STUB_ENCODE replaces dns_encode by a no-op (the send path is checked under C08/C10).
 */
#ifndef VCLIENT_H
#define VCLIENT_H
#include "vharness.h"
#include <sys/types.h>
#include <sys/socket.h>
#include <sys/select.h>
#include <netinet/in.h>
#include <time.h>
#include <stdlib.h>
#include <stdio.h>
#include <unistd.h>

#ifdef VC_STUB_DECODE
#define dns_decode vc_dns_decode
#endif
#ifdef VC_STUB_ENCODE
#define dns_encode vc_dns_encode
#endif
#ifdef VC_STUB_LOGIN
#define login_calculate vc_login_calculate
#endif
#include "client.c"
#include "vlibc.h"

static int vc_nsent;
ssize_t sendto(int fd, const void *buf, size_t len, int flags, const struct sockaddr *to, socklen_t tolen)
{
	(void) fd; (void) buf; (void) flags; (void) to; (void) tolen;
	vc_nsent++;
	return (ssize_t) len;
}
time_t time(time_t *t) { time_t v = (time_t) (VC_NOW); if (t) *t = v; return v; }
int rand(void) { return 4; }
unsigned int sleep(unsigned int s) { (void) s; return 0; }

#ifndef VREPLAY
void warnx(const char *fmt, ...) { (void) fmt; }
void warn(const char *fmt, ...) { (void) fmt; }
void errx(int eval, const char *fmt, ...) { (void) eval; (void) fmt; __CPROVER_assume(0); }
void err(int eval, const char *fmt, ...) { (void) eval; (void) fmt; __CPROVER_assume(0); }
int fprintf(FILE *f, const char *fmt, ...) { (void) f; (void) fmt; return 0; }
int fflush(FILE *f) { (void) f; return 0; }
#endif
#endif
