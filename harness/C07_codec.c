/* C07: Base32/64/64u/128 codecs are lossless, alphabet-pure and capacity-exact.
 * Real code: base32.c / base64.c / base64u.c (sed-generated) / base128.c via the *_ops tables.
 * Cell parameters: -DOPS=<ops symbol> -DCID=32|64|65|128 -DBITS=5|6|6|7 -DN=<max input bytes>
 * Symbolic: input bytes, length n<=N, encoder capacity cap<=CAPMAX, decoder capacity, the
 * initial content of the output buffers (guard), the inspected indices.
 */
#include "vharness.h"
#include "encoding.h"

#ifndef N
#define N 16
#endif
#define CAPMAX (2 * N + 6)
#define ENCBUF (CAPMAX + 4)
#define DECBUF (N + 4)

struct vin {
	unsigned char data[N];
	unsigned n, cap, dcap;
	unsigned char encinit[ENCBUF];
	unsigned char decinit[DECBUF];
	unsigned g, j, k, dg;
	unsigned char slen_extra;
};
#ifdef VREPLAY
#include "replay_in.h"
static struct vin IN = VIN_INIT;
#else
struct vin nondet_vin(void);
static struct vin IN;
#endif

static int alpha(unsigned char c)
{
	int lower = (c >= 'a' && c <= 'z'), upper = (c >= 'A' && c <= 'Z'), dig = (c >= '0' && c <= '9');
#if CID == 32
	return lower || (c >= '0' && c <= '5');
#elif CID == 64
	return lower || upper || dig || c == '-' || c == '+';
#elif CID == 65
	return lower || upper || dig || c == '-' || c == '_';
#else
	return lower || upper || dig || (c >= 0xBC && c <= 0xFD);
#endif
}

void harness(void)
{
	char enc[ENCBUF];
	unsigned char dec[DECBUF];
	size_t len, dlen;
	int w, d;
	unsigned consumed, need, i;

#ifndef VREPLAY
	IN = nondet_vin();
#endif
	VASSUME(IN.n <= N);
	VASSUME(IN.cap <= CAPMAX);
	memcpy(enc, IN.encinit, ENCBUF);
	memcpy(dec, IN.decinit, DECBUF);

	/* ---- encoder ---- */
	len = IN.cap;
	w = OPS.encode(enc, &len, IN.data, IN.n);
	consumed = (unsigned) len;

	VASSERT(w >= 0 && (unsigned) w <= IN.cap, "encoder wrote at most the capacity");
	VASSERT(enc[w] == 0, "encoder terminated the text at [written]");
	VASSERT(consumed <= IN.n, "bytes reported as consumed <= input length");
	/* nothing beyond capacity+terminator is touched (g ranges over every guard position) */
	VASSUME(IN.g > IN.cap && IN.g < ENCBUF);
	VASSERT((unsigned char) enc[IN.g] == IN.encinit[IN.g], "no write past capacity+terminator");
	/* alphabet purity (j ranges over every emitted position) */
	VASSUME(IN.j < ENCBUF);
	if (IN.j < (unsigned) w)
		VASSERT(alpha((unsigned char) enc[IN.j]), "emitted character is in the documented alphabet");
	/* documented length ratio of the emitted text: ceil(8*consumed/BITS) characters */
	VASSERT((unsigned) w == (8 * consumed + BITS - 1) / BITS, "text length == ceil(8*consumed/bits)");
	need = (8 * IN.n + BITS - 1) / BITS;
	if (IN.cap >= need) {
		VASSERT(consumed == IN.n, "enough capacity => everything consumed");
		VASSERT((unsigned) w == need, "enough capacity => documented length");
	}
	if (IN.cap >= 2 && IN.n >= 1)
		VASSERT(consumed >= 1, "progress: capacity>=2 and input>=1 => at least one byte consumed");

	/* ---- decoder: what was emitted decodes to exactly data[0..consumed) ---- */
	VASSUME(IN.dcap <= N);
	dlen = IN.dcap;
	/* srclen may be the exact text length or larger (decoder must stop at the NUL) */
	d = OPS.decode(dec, &dlen, enc, (size_t) w + (IN.slen_extra & 1));
	VASSERT(d >= 0 && (unsigned) d <= IN.dcap, "decoder wrote at most its capacity");
	VASSERT(dec[d] == 0, "decoder terminated output at [written]");
	VASSUME(IN.dg > IN.dcap && IN.dg < DECBUF);
	VASSERT(dec[IN.dg] == IN.decinit[IN.dg], "decoder: no write past capacity+terminator");
	if (IN.dcap >= consumed)
		VASSERT((unsigned) d == consumed, "decode(encode(x)) has exactly the consumed length");
	else
		VASSERT((unsigned) d == IN.dcap, "short decoder capacity => filled exactly to capacity");
	VASSUME(IN.k < N);
	if (IN.k < (unsigned) d)
		VASSERT(dec[IN.k] == IN.data[IN.k], "decode(encode(x)) returns the input bytes");

#if CID == 32
	/* Base32 decodes case-insensitively */
	{
		char up[ENCBUF];
		unsigned char dec2[DECBUF];
		int d2;
		for (i = 0; i < ENCBUF; i++) {
			char c = enc[i];
			up[i] = (c >= 'a' && c <= 'z') ? (char) (c - 'a' + 'A') : c;
		}
		dlen = N;
		d2 = OPS.decode(dec2, &dlen, up, (size_t) w);
		VASSERT((unsigned) d2 == consumed, "upper-cased Base32 decodes to the same length");
		if (IN.k < (unsigned) d2)
			VASSERT(dec2[IN.k] == IN.data[IN.k], "upper-cased Base32 decodes to the same bytes");
	}
#endif
	if (IN.n == N && IN.cap == CAPMAX && consumed == N)
		VREACH("full-length input round-tripped");
	if (IN.cap < need && consumed > 0)
		VREACH("capacity-limited encode");
	VREACH("end");
}

#ifdef VREPLAY
int main(void) { harness(); puts("REPLAY-OK"); return 0; }
#endif
