/* C20 (a): the forwarded-query ring. Real code: fw_query.c fw_query_init/put/get.
 * M symbolic puts (ids and requester addresses symbolic) from the initial state, then one lookup
 * with a symbolic id (lookups are pure, so one lookup at a symbolic point covers any interleaving).
 */
#include "vharness.h"
#include "fw_query.h"

#ifndef KOPS
#define KOPS 20
#endif
#define AB 6	/* symbolic address bytes compared */

struct vput { unsigned short id; unsigned char a[AB]; int addrlen; };
struct vin { unsigned m; struct vput p[KOPS]; unsigned short qid; };
#ifdef VREPLAY
#include "replay_in.h"
static struct vin IN = VIN_INIT;
#else
struct vin nondet_vin(void);
static struct vin IN;
#endif

static int same(const struct fw_query *e, const struct vput *p)
{
	return e->id == p->id && e->addrlen == p->addrlen && memcmp(&e->addr, p->a, AB) == 0;
}

void harness(void)
{
	struct fw_query *res;
	unsigned j, lo, c = 0, match_any = 0;
#ifndef VREPLAY
	IN = nondet_vin();
#endif
	VASSUME(IN.m <= KOPS);
	fw_query_init();
	for (j = 0; j < KOPS; j++) {
		struct fw_query f;
		if (j >= IN.m) break;
		VASSUME(IN.p[j].addrlen >= 1 && IN.p[j].addrlen <= (int) sizeof(struct sockaddr_storage));
		memset(&f, 0, sizeof(f));
		memcpy(&f.addr, IN.p[j].a, AB);
		f.addrlen = IN.p[j].addrlen;
		f.id = IN.p[j].id;
		fw_query_put(&f);
	}
	fw_query_get(IN.qid, &res);
	lo = IN.m > FW_QUERY_CACHE_SIZE ? IN.m - FW_QUERY_CACHE_SIZE : 0;
	for (j = 0; j < KOPS; j++) {
		if (j < lo || j >= IN.m) continue;
		if (IN.p[j].id == IN.qid) {
			c++;
			if (res && same(res, &IN.p[j])) match_any = 1;
		}
	}
	if (c == 0) {
		/* unknown id: no requester may receive the reply. The only non-NULL answer is an
		 * untouched initial slot (id 0, address length 0 = nobody). */
		VASSERT(res == NULL || (IN.qid == 0 && IN.m < FW_QUERY_CACHE_SIZE && res->addrlen == 0),
			"reply id that matches none of the 16 most recent forwards goes to no requester");
		if (res == NULL && IN.m > FW_QUERY_CACHE_SIZE) VREACH("forgotten after wrap-around");
	} else {
		VASSERT(res != NULL, "id among the 16 most recent forwards is found");
		VASSERT(match_any, "lookup returns a requester that really forwarded this id recently");
		if (c == 1 && IN.m > FW_QUERY_CACHE_SIZE) VREACH("unique id found after wrap-around");
	}
	VREACH("end");
}
#ifdef VREPLAY
int main(void) { harness(); puts("REPLAY-OK"); return 0; }
#endif
