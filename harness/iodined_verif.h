/* iodined_verif.h: included by src/iodined.c when it is compiled with -DIODINE_VERIF (verification
 * builds only; see the hook commits in /repo). A harness may define any of the three macros before
 * including iodined.c; the defaults below are the same no-ops a normal build gets.
 *
 *  VERIF_WRITE_DNS_HOOK(fd,q,data,datalen,downenc)  expression; non-zero = "answer observed, skip the
 *                                                   wire encoder" (the wire encoder is checked on its own
 *                                                   under C09/C10)
 *  VERIF_DISPATCH_HINT(in,q,domain_len)             statement after memcpy(in, q->name, ...) in
 *                                                   handle_null_request(): lets a cell fix the command letter
 *  VERIF_USERID_HINT(userid)                        statement after each `userid = ...`: lets a cell fix the slot
 */
#ifndef IODINED_VERIF_H
#define IODINED_VERIF_H
#ifndef VERIF_WRITE_DNS_HOOK
#define VERIF_WRITE_DNS_HOOK(fd, q, data, datalen, downenc) 0
#endif
#ifndef VERIF_DISPATCH_HINT
#define VERIF_DISPATCH_HINT(in, q, domain_len)
#endif
#ifndef VERIF_USERID_HINT
#define VERIF_USERID_HINT(userid)
#endif
/*  VERIF_TOUSER_HINT(touser)   statement after each find_user_by_ip() in tunnel_tun()/handle_full_packet():
 *                              lets a cell fix the destination slot of a tun/forwarded packet */
#ifndef VERIF_TOUSER_HINT
#define VERIF_TOUSER_HINT(touser)
#endif
#endif
