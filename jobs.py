"""Job registry: property id -> list of CBMC queries per tier."""
from vlib.core import Job, FS520
import re

CODECS = [("base32", "base32_ops", 32, 5, 5, 8, "base32.c"),
          ("base64", "base64_ops", 64, 6, 3, 4, "base64.c"),
          ("base64u", "base64u_ops", 65, 6, 3, 4, "base64u.c"),
          ("base128", "base128_ops", 128, 7, 7, 8, "base128.c")]


def c07_jobs(tier):
    jobs = []
    sizes = [16] if tier == "quick" else [16, 40]
    for name, ops, cid, bits, raw, encb, unit in CODECS:
        for n in sizes:
            capmax = 2 * n + 6
            encit = n // raw + 3
            decit = (capmax + 1) // encb + 3
            jobs.append(Job(
                "codec-%s-N%d" % (name, n), "C07_codec.c",
                defs={"OPS": ops, "CID": cid, "BITS": bits, "N": n}, units=[unit],
                loops={"%s_encode" % name: encit, "%s_decode" % name: decit,
                       "%s_reverse_init" % name: 130, "harness": capmax + 6},
                timeout=900 if tier == "quick" else 3000,
                desc="encode with symbolic capacity, decode back, alphabet/ratio/guard assertions",
                bounds="input length 0..%d bytes (all byte values), capacity 0..%d, decoder capacity 0..%d" % (n, capmax, n),
                functions=["%s_encode" % name, "%s_decode" % name, "%s_reverse_init" % name]))
        t = 18 if tier == "quick" else 40
        jobs.append(Job(
            "decode-any-%s-T%d" % (name, t), "C07_decode_any.c",
            defs={"OPS": ops, "CID": cid, "T": t}, units=[unit],
            loops={"%s_decode" % name: t // encb + 3, "%s_reverse_init" % name: 130},
            timeout=900,
            desc="decoder (and b32_8to5/b32_5to8) on arbitrary text incl. bytes >= 0x80",
            bounds="text length 0..%d, all byte values, capacity 0..%d" % (t, t),
            functions=["%s_decode" % name, "b32_8to5", "b32_5to8"]))
    return jobs


def c17_jobs(tier):
    q = tier == "quick"
    dl, ql = (8, 12) if q else (10, 16)
    F = ["check_topdomain", "query_datalen"]
    jobs = [
        Job("validate-sym-DL%d" % dl, "C17_domain.c", defs={"MODE": 1, "DL": dl}, units=["common.c"], unwind=dl + 3,
            desc="check_topdomain vs statement-derived reference, fully symbolic string", functions=F[:1],
            bounds="domain string 0..%d chars over all 256 byte values, wildcard flag symbolic" % dl),
        Job("match-sym-DL%d-QL%d" % (dl, ql), "C17_domain.c", defs={"MODE": 2, "DL": dl, "QL": ql}, units=["common.c"],
            unwind=ql + 3, desc="query_datalen vs label-boundary reference", functions=F[1:],
            bounds="query name 0..%d chars (all byte values, no '..'), accepted domain 3..%d chars incl. wildcard" % (ql, dl)),
        Job("validate-shaped", "C17_domain.c", defs={"MODE": 3}, units=["common.c"], unwind=140,
            desc="check_topdomain on long strings built from symbolic label lengths", functions=F[:1],
            bounds="1..5 labels of 1..70 chars of one symbolic legal char, total <= 135, optional '*.' prefix", timeout=1500),
        Job("match-shaped", "C17_domain.c", defs={"MODE": 4, "DL": 6}, units=["common.c"], unwind=150,
            desc="query_datalen on long names: shaped data part + symbolic domain with one case flip", functions=F[1:],
            bounds="data part up to 135 chars in 1..5 labels, domain 3..6 chars", timeout=1500),
        Job("test-vectors", "C17_domain.c", defs={"MODE": 5}, units=["common.c"], unwind=64,
            desc="reference and real functions on the vectors of tests/common.c (validates the reference)", functions=F,
            bounds="concrete"),
    ]
    if q:
        jobs = [j for j in jobs if "shaped" not in j.name]
    return jobs


# shrink the per-user answer cache too (struct tun_user is ~20 KB even after 64K scaling)
SHRINK_DNSCACHE = [(r"dnscache_answer\[DNSCACHE_LEN\]\[4096\]", "dnscache_answer[DNSCACHE_LEN][16]")]


# C18 touches none of the buffers: shrink every array in struct tun_user / struct query
SHRINK_ALL = SHRINK_DNSCACHE + [(r"#define QUERY_NAME_SIZE 256", "#define QUERY_NAME_SIZE 8"),
                                (r"#define QMEMPING_LEN 30", "#define QMEMPING_LEN 2"),
                                (r"#define QMEMDATA_LEN 15", "#define QMEMDATA_LEN 2"),
                                (r"#define OUTPACKETQ_LEN 4\b", "#define OUTPACKETQ_LEN 1"),
                                (r"#define DNSCACHE_LEN 4\b", "#define DNSCACHE_LEN 1")]


def c18_jobs(tier):
    return [
        Job("init-users", "C18_pool.c", defs={"MODE": 1}, units=["user.c"], scale=16, subst=SHRINK_ALL, unwind=33,
            desc="init_users with symbolic server address and prefix length; count/subnet/distinctness assertions",
            bounds="all 2^32 server addresses x netbits 8..30 (symbolic); struct packet buffers scaled to 16 bytes (unused here)",
            functions=["init_users"], timeout=900),
        Job("find-user-by-ip", "C18_pool.c", defs={"MODE": 2}, units=["user.c"], scale=16, subst=SHRINK_ALL, unwind=18,
            desc="find_user_by_ip from an arbitrary 16-slot table and clock vs first-match reference",
            bounds="16 slots, arbitrary flags/addresses, last_pkt <= now < 2^31, usercount 0..16",
            functions=["find_user_by_ip"], timeout=900),
    ]


def c19_jobs(tier):
    q = tier == "quick"
    positions = [0, 31] if q else [0, 3, 4, 15, 16, 27, 28, 31]
    jobs = [
        Job("login-xor-recorder", "C19_login.c", defs={"MODE": 1}, units=["login.c"], unwind=34,
            desc="login_calculate with MD5 recorder: hashed bytes == pass XOR big-endian challenge, for all pass/seed",
            bounds="all 2^256 password blocks x all 2^32 challenges x buflen 0..20", functions=["login_calculate"]),
        Job("md5-login-vectors", "C19_login.c", defs={"MODE": 3}, units=["login.c", "md5.c"], unwind=66, checks=False,
            desc="RFC 1321 vectors through md5.c and the reference; login_calculate+md5.c vs reference on 4 concrete challenges",
            bounds="concrete", functions=["login_calculate", "md5_init", "md5_append", "md5_process", "md5_finish"], timeout=900),
    ]
    for pos in positions:
        jobs.append(Job("md5-equiv-pos%d" % pos, "C19_login.c", defs={"MODE": 2, "K": 1, "POS0": pos, "BASE": 17 + pos},
                        units=["md5.c"], unwind=66, checks=False,
                        desc="md5.c vs independent RFC 1321 implementation: 32-byte message, one fully symbolic byte",
                        bounds="32-byte message, fixed pattern, byte %d symbolic (256 messages decided by one query)" % pos,
                        functions=["md5_init", "md5_append", "md5_process", "md5_finish"], timeout=900))
    return jobs


SERVER_UNITS = ["dns.c", "read.c", "encoding.c", "base32.c", "base64.c", "base64u.c", "base128.c",
                "user.c", "fw_query.c", "login.c", "md5.c"]
SERVER_HUNITS = ["vunit_common.c"]
# read.c copies with data-dependent lengths (putname, puttxtbin, readdata, readtxtbin): CBMC's built-in
# memcpy with a symbolic length is extremely expensive, so read.c is compiled with memcpy -> vmemcpy,
# a plain byte loop defined in harness/vlibc_mem.c (semantically identical for non-overlapping copies)
READ_LOOPCPY = {"read.c": {"memcpy": "vmemcpy"}}


def c20_jobs(tier):
    k = 20 if tier == "quick" else 36
    nm = 6 if tier == "quick" else 9
    jobs = [
        Job("fwq-ring-K%d" % k, "C20_fwquery.c", defs={"KOPS": k}, units=["fw_query.c"], unwind=k + 2,
            desc="fw_query_put x m (symbolic ids/addresses) then fw_query_get(symbolic id) vs ghost list of the last 16 puts",
            bounds="0..%d forwards from the initial state, ids 16-bit symbolic, 6 symbolic address bytes + length" % k,
            functions=["fw_query_init", "fw_query_put", "fw_query_get"], timeout=900),
    ] + [
        Job("forward-query-v%d" % (6 if fam else 4), "C20_forward.c",
            defs={"MODE": 1, "NAMEMAX": nm, "FAM6": fam, "VL_STRDUP_MAX": nm + 2},
            units=SERVER_UNITS, hunits=SERVER_HUNITS + ["vlibc_mem.c"], unit_defs=READ_LOOPCPY,
            scale=512, subst=SHRINK_DNSCACHE, unwind=100, checks=False,
            loops={"strlen": nm + 2, "strtok": nm + 2, "vl_isdelim": 3, "vmemcpy": nm + 1, "strcpy": nm + 2,
                   "legal_name": nm + 2, "putname": nm // 2 + 3, "rm_name": nm + 2, "rm_streq": nm + 2, "strdup": nm + 2,
                   "sendto": nm + 34},
            desc="forward_query: relayed datagram parsed by strict oracle (same id/name/type, to 127.0.0.1:port), requester remembered",
            bounds="legal dotted name 1..%d chars (labels 1..63), id/type/requester address symbolic, IPv%d requester"
                   % (nm, 6 if fam else 4),
            functions=["forward_query", "dns_encode", "putname", "fw_query_put", "fw_query_get"], timeout=1200)
        for fam in (0, 1)
    ] + [
        Job("tunnel-bind", "C20_forward.c", defs={"MODE": 2}, units=SERVER_UNITS, hunits=SERVER_HUNITS, scale=512,
            subst=SHRINK_DNSCACHE, unwind=100,
            desc="tunnel_bind: arbitrary reply after <=3 forwards is relayed unchanged to the matching requester or dropped",
            bounds="reply -1..32 bytes arbitrary, 0..3 remembered requesters (non-zero ids, v4/v6)",
            functions=["tunnel_bind", "dns_get_id", "fw_query_get"], timeout=900),
    ]
    return jobs


DEC_LOOPCPY = {"read.c": {"memcpy": "vmemcpy"}, "dns.c": {"memcpy": "vmemcpy"}}


def depth_subst(d):
    return [(r"return readname_loop\(packet, packetlen, src, dst, length, 10\);",
             "return readname_loop(packet, packetlen, src, dst, length, %d);" % d)]


# client-side decoder tables scaled for the 2-safety cells (the real sizes are used by the C06 shaped cell)
def dec_shrink(vrd, vn):
    return [(r"char rdata\[4\*1024\];", "char rdata[%d];" % vrd),
            (r"char names\[250\]\[QUERY_NAME_SIZE\];", "char names[%d][QUERY_NAME_SIZE];" % vn),
            (r"pref < 2500", "pref < %d" % (vn * 10))]


QTYPES = [("NULL", 10), ("PRIVATE", 65399), ("TXT", 16), ("SRV", 33), ("MX", 15), ("CNAME", 5), ("A", 1)]


DEC_STUB = {"read.c": {"memcpy": "vmemcpy"}, "dns.c": {"memcpy": "vmemcpy", "readname": "vstub_readname"}}


def decode_jobs(tier, checks=False, tag=""):
    """dns_decode with the name reader replaced by its contract (lemma B); 2-safety + (optionally) safety checks."""
    q = tier == "quick"
    pb = 40 if q else 56
    jobs = [Job("decode%s-query-PB%d" % (tag, pb), "C12_decode.c", defs={"QR": 0, "PB": pb, "STUBNAME": 1}, units=["dns.c", "read.c"],
                hunits=["vlibc_mem.c"], unit_defs=DEC_STUB, checks=checks,
                loops={"strncpy": 258, "strlen": 258}, unwind=pb + 2, timeout=1500,
                desc="server side: dns_decode(QR_QUERY) twice on buffers equal on [0,len), different beyond (name reader = contract stub)",
                bounds="receive buffer %d bytes, datagram 0..%d bytes fully symbolic" % (pb, pb),
                functions=["dns_decode", "readshort"])]
    pb0 = pb
    for name, t in QTYPES:
        pb = pb0 - 6 if name == "TXT" else pb0      # the TXT string loop is the most expensive cell
        jobs.append(Job("decode%s-answer-%s-PB%d" % (tag, name, pb), "C12_decode.c",
                        defs={"QR": 1, "QTYPE": t, "PB": pb, "STUBNAME": 1},
                        units=["dns.c", "read.c"], hunits=["vlibc_mem.c"], unit_defs=DEC_STUB, checks=checks,
                        subst=dec_shrink(48, 3),
                        loops={"strncpy": 258, "strlen": 258, "dns_decode": 6, "readtxtbin": pb - 26}, unwind=pb + 10, timeout=1500,
                        desc="client side: dns_decode(QR_ANSWER) twice, question section concrete (type %s), answer section symbolic "
                             "(name reader = contract stub)" % name,
                        bounds="receive buffer %d bytes, datagram 19..%d bytes; rdata scaled to 48 bytes, MX/SRV name table scaled "
                               "to 3 entries" % (pb, pb),
                        functions=["dns_decode", "readdata", "readtxtbin", "readshort", "readlong"]))
    return jobs


def readname_jobs(tier):
    q = tier == "quick"
    cells = [(8, 2)] if q else [(10, 2), (8, 3)]
    return [Job("readname-PL%d-D%d" % (pl, d), "C12_readname.c", defs={"PL": pl, "D": d, "DLEN": 14}, units=[],
                loops={"readname_loop.0": pl + 1, "readname_loop.1": pl // 2 + 3}, unwind=16, timeout=2400, object_bits=12,
                solver="minisat2",
                desc="readname_loop twice on buffers equal on [0,len), different beyond; standard memory/UB checks on",
                bounds="receive buffer %d bytes, datagram 0..%d bytes, start offset 0..len, destination length 3..14, "
                       "compression depth budget %d" % (pl, pl, d),
                functions=["readname_loop"]) for pl, d in cells]


CLIENT_UNITS = ["dns.c", "read.c", "encoding.c", "base32.c", "base64.c", "base64u.c", "base128.c"]
HS_NAMES = {1: "version", 2: "login", 3: "switch-codec", 4: "switch-downenc", 5: "upenctest", 6: "downenc-qtype-edns0",
            7: "try-lazy", 8: "fragsize-check", 9: "raw-udp", 10: "lazyoff", 11: "set-fragsize"}


def client_jobs(tier):
    q = tier == "quick"
    insz = 48
    sub = [(r"\[4096\]", "[%d]" % insz)]
    jobs = []
    ob = 24 if q else 40
    cells = [("NULL", 10, None), ("raw", 10, None)] + \
            [("TXT-%s" % c, 16, c) for c in "tsuvr"] + [("TXT-other", 16, "?")] + \
            [("CNAME-%s" % c, 5, c) for c in "hijk"]
    # MX/SRV multi-name reassembly loop of read_dns_withq: no verdict within 12 GB even for 9-byte replies
    # (symbolic offsets into two buffers x 9 decoders per part) -> not covered, stated in DESIGN.md
    ob0 = ob
    for cname, t, codec in cells:
        ob = 9 if t in (15, 33) else ob0       # the MX/SRV reassembly loop decodes every part: smaller reply bound
        defs = {"MODE": 1, "OB": ob, "RB": 24, "NREPLY": 1, "TSEL": t}
        if codec:
            defs["CODEC"] = "'%s'" % codec
        if cname == "raw":
            defs["RAWCONN"] = 1
        jobs.append(Job("client-reply-reader-%s" % cname, "C06_client.c", defs=defs,
                        units=CLIENT_UNITS, hunits=SERVER_HUNITS + ["vlibc_mem.c"], unit_defs=READ_LOOPCPY,
                        scale=48 if t in (15, 33) else 96, subst=sub,
                        unwind=max(ob, 24) + 4,
                        loops={"base32_reverse_init": 130, "base64_reverse_init": 130, "base64u_reverse_init": 130,
                               "base128_reverse_init": 130, "read_dns_withq": ob // 5 + 2, "strlen": ob + 2,
                               "inline_undotify": ob + 2, "vc_dns_decode": ob + 1},
                        timeout=1500,
                        desc="read_dns_withq with the record decoder replaced by its contract: dns_namedec, MX/SRV reassembly, raw frames",
                        bounds="decoded reply 0..%d bytes arbitrary, record type/codec letter per cell, raw datagram 0..24 bytes, "
                               "64 KiB locals scaled to 96" % ob,
                        functions=["read_dns_withq", "dns_namedec", "unpack_data", "inline_undotify", "base*_decode"]))
    for hs in sorted(HS_NAMES):
        jobs.append(Job("client-handshake-%s" % HS_NAMES[hs], "C06_client.c",
                        defs={"MODE": 2, "HS": hs, "OB": insz, "RB": 24 if hs != 9 else insz, "NREPLY": 2},
                        units=CLIENT_UNITS, hunits=SERVER_HUNITS + ["vlibc_mem.c"], unit_defs=READ_LOOPCPY, scale=96, subst=sub,
                        unwind=insz + 20, loops={"base32_reverse_init": 130, "strncmp": 12, "strncat": 132, "strcat": 140,
                                                 "strlen": 140, "memset": 300, "handshake_waitdns.2": 4,
                                                 "handshake_waitdns.1": 4},
                        timeout=1500, object_bits=12,
                        desc="handshake parser(s) '%s' through the real handshake_waitdns/read_dns_withq, decoder = contract" % HS_NAMES[hs],
                        bounds="2 arbitrary replies (length -3..%d = sizeof reply buffer after scaling 4096->%d, arbitrary id/type/first char/rcode)" % (insz, insz),
                        functions=["handshake_*", "handshake_waitdns", "read_dns_withq"]))
    return jobs


def c06_jobs(tier):
    return decode_jobs(tier, checks=True, tag="-safe")[1:] + client_jobs(tier)


def c12_jobs(tier):
    return readname_jobs(tier) + decode_jobs(tier)



# ---------------------------------------------------------------------------------------------
# Server step harness (S_step.c): one request from an arbitrary valid state, cell = command letter x slot
STEP_B = 80
SHRINK_STEP = [(r"dnscache_answer\[DNSCACHE_LEN\]\[4096\]", "dnscache_answer[DNSCACHE_LEN][72]"),
               (r"char in\[512\];", "char in[64];"), (r"char pkt\[4096\];", "char pkt[82];"),
               (r"#define QMEMPING_LEN 30", "#define QMEMPING_LEN 3"), (r"#define QMEMDATA_LEN 15", "#define QMEMDATA_LEN 3"),
               (r"#define OUTPACKETQ_LEN 4\b", "#define OUTPACKETQ_LEN 2"), (r"#define DNSCACHE_LEN 4\b", "#define DNSCACHE_LEN 2")]
def _elem(e, i="i_"):
    """element expression for the i-th byte of memcpy operand e: a direct array lvalue wherever the operand names an
    array/char pointer (optionally + offset), a char-cast otherwise"""
    e = e.strip()
    m = re.match(r"^([A-Za-z_][\w\[\]\.>-]*?)\s*\+\s*(.+)$", e)
    if m and not m.group(1).endswith("-"):
        return "(%s)[(%s) + %s]" % (m.group(1), m.group(2), i)
    if re.match(r"^[A-Za-z_][\w\[\]\.]*(->\w+)*$", e) and not e.startswith("&"):
        return "(%s)[%s]" % (e, i)
    return "((char *) (%s))[%s]" % (e, i)


def memcpy_inline(m):
    """source transform for the scratch copy of iodined.c: memcpy statement -> typed copy at the call site (see S_step.c)"""
    d, s, n = m.group(1).strip(), m.group(2).strip(), m.group(3).strip()
    if n == "sizeof(struct query)":
        return "VS_CP_QUERY(%s, %s);" % (d, s)
    if re.search(r"->fromlen2?$", n) and "(struct sockaddr" not in d:
        return "VS_CP_SS(%s, %s, %s);" % (d, s, n)
    se = _elem(s)
    if se.startswith("((char *)"):
        se = se.replace("((char *)", "((const char *)", 1)
    return "{ size_t i_, n_ = (size_t) (%s); for (i_ = 0; i_ < n_; i_++) %s = %s; }" % (n, _elem(d), se)


MEMCPY_SUBST = [(r"\bmemcpy\(([^;]*?),\s*([^;,]*(?:\([^;]*?\))?[^;,]*?),\s*([^;,]*(?:\([^;]*?\))?[^;,]*?)\);", memcpy_inline, "iodined.c")]
SHRINK_STEP1 = [((rx, rp.replace("QMEMPING_LEN 3", "QMEMPING_LEN 1").replace("QMEMDATA_LEN 3", "QMEMDATA_LEN 1")
                  .replace("DNSCACHE_LEN 2", "DNSCACHE_LEN 1").replace("[DNSCACHE_LEN][72]", "[DNSCACHE_LEN][82]")) + tuple(rest)) for (rx, rp, *rest) in SHRINK_STEP]
STUB_SC_SUBST = [(r"static int send_chunk_or_dataless\(int dns_fd, int userid, struct query \*q\)\n\{",
                  "static int real_send_chunk_or_dataless(int dns_fd, int userid, struct query *q)\n{")]
STEP_UNITS = ["encoding.c", "base32.c", "base64.c", "base64u.c", "base128.c", "user.c", "fw_query.c", "login.c", "md5.c",
              "dns.c", "read.c"]
CMD_LETTERS = "VLIZSOYRNP"


OUT_UIDS = {"V": [-1], "L": [2, -1, 127, -128, 16], "N": [2, -1, 127, -128, 16], "P": [2, -1, 127, -128, 16],
            "I": [2, 31, 15, 16], "S": [2, 31, 15, 16], "O": [2, 31, 15, 16], "R": [2, 15, 8]}
OTHER_QUICK = [0x01, 0xff]   # neighbours of the letter/digit ranges + extremes


def cq(c):
    """C character constant for byte value / char c"""
    v = c if isinstance(c, int) else ord(c)
    return "(%d)" % (v if v < 128 else v - 256)


def step_cells(tier, lower=None, fwd_quick=False):
    """(cellname, defs) for MODE 1: first character x slot number, both concrete per cell."""
    cells = []
    q = tier == "quick"
    lower = (not q) if lower is None else lower
    letters = [c for c in CMD_LETTERS] + ([c.lower() for c in CMD_LETTERS] if lower else ["p"])
    for c in letters:
        if c in "ZzYy":
            cells.append(("%s" % c, {"CMDCH": cq(c)}))
            continue
        outs = OUT_UIDS[c.upper()]
        outs = outs[:1] if q else outs
        # quick: the second slot (index 1: the first-slot shortcut paths cannot hide a bug there) + one out-of-range
        # representative; the version cell keeps all three (slot allocation order). thorough: both slots, all representatives
        ins = [0, 1] if (not q or c.upper() == "V") else [1]
        for uid in ins + outs:
            if c.islower() and q and uid != 1:
                continue
            cells.append(("%s-u%d" % (c, uid), {"CMDCH": cq(c), "UIDCELL": "(%d)" % uid}))
    hexes = "0123456789abcdefABCDEF"
    for c in (hexes if not q else "12"):
        uid = int(c, 16)
        if uid < 2:
            # acting data cells: destination slot of a completed packet x upstream codec are cell parameters too
            # quick: delivery to the tun device (both slots, Base32; slot 1 also Base128); forwarding to the other session
            # (the slowest cell, ~10 min) only where FWD_QUICK is set (C04); thorough: all destinations x codecs
            combos = ([(-1, 0)] + ([(-1, 3)] if uid == 1 else []) + ([(1 - uid, 0)] if (uid == 1 and fwd_quick) else [])) if q \
                else [(to, e) for to in (-1, 0, 1) for e in (0, 1, 2, 3)]
            for to, e in combos:
                cells.append(("data%s-u%d-to%d-e%d" % (c, uid, to, e),
                              {"CMDCH": cq(c), "UIDCELL": "(%d)" % uid, "TOCELL": "(%d)" % to, "ENCSEL": e}))
        else:
            cells.append(("data%s-u%d" % (c, uid), {"CMDCH": cq(c), "UIDCELL": "(%d)" % uid}))
    others = OTHER_QUICK if q else [v for v in range(256) if chr(v) not in hexes and chr(v).upper() not in CMD_LETTERS]
    for v in others:
        cells.append(("other%02x" % v, {"CMDCH": cq(v)}))
    return cells


def step_jobs(tier, groups, prefix, checks=False, nl=None, only=None, timeout=1500, fwd_quick=False):
    jobs = []
    G = {"G_" + g: None for g in groups}
    for cname, d in step_cells(tier, fwd_quick=fwd_quick):
        if only and not re.search(only, cname):
            continue
        n = nl or (20 if tier == "quick" else 28)
        if cname[0] in "Ll":
            n = max(n, 34)      # a login name carries 17 bytes = 28 base32 chars
        defs = {"MODE": 1, "NL": n, "NU": 2}
        defs.update(d)
        defs.update(G)
        stub = cname[0] in "Pp" or cname.startswith("data")
        if stub:
            defs["STUB_SC"] = None
        loops = {"sendto": 130, "start_new_outpacket": STEP_B + 4, "save_to_outpacketq": STEP_B + 4, "save_to_dnscache": STEP_B + 4, "send_raw": STEP_B + 4, "base32_reverse_init": 34, "base64_reverse_init": 66, "base64u_reverse_init": 66, "base128_reverse_init": 130,
                 "handle_null_request": 2050 if cname[0] in "Rr" and cname[1] == "-" else STEP_B + 4, "send_chunk_or_dataless": STEP_B + 4, "start_new_outpacket": STEP_B + 4, "save_to_outpacketq": STEP_B + 4, "save_to_dnscache": STEP_B + 4, "send_raw": STEP_B + 4}
        jobs.append(Job("%s-%s" % (prefix, cname), "S_step.c", defs=defs, units=STEP_UNITS,
                        hunits=SERVER_HUNITS, scale=STEP_B, subst=SHRINK_STEP + MEMCPY_SUBST + (STUB_SC_SUBST if stub else []),
                        unwind=max(n + 12, 34), loops=loops,
                        checks=checks, timeout=timeout, mem_gb=(8 if cname.startswith("data") and "-to" in cname else 6 if (stub or cname[0] in "Rr") else 3), flags=FS,
                        desc="one request (first char %s, slot number %s) to the real handle_null_request() from an arbitrary valid 2-slot "
                             "state; assertion groups %s%s" % (d["CMDCH"], d.get("UIDCELL", "n/a"), "+".join(groups),
                                                              "; send_chunk_or_dataless = contract stub (proved in the emit-* cells)" if stub else ""),
                        bounds="query name <= %d chars (all byte values), 2 slots, every slot field arbitrary within the invariant, "
                               "64 KiB buffers scaled to %d, rings scaled (qmem 3, cache 2, queue 2), one address length per cell, "
                               "clock/rand/zlib arbitrary" % (n, STEP_B),
                        functions=["handle_null_request", "check_user_and_ip", "process_downstream_ack",
                                   "handle_full_packet", "answer_from_dnscache", "answer_from_qmem", "find_available_user", "unpack_data"]))
    return jobs


def raw_jobs(tier, groups, prefix, checks=False, harness="S_step.c"):
    """MODE 2: raw_decode() on one datagram: raw login / data / ping / unknown command / no raw header, per slot number."""
    jobs = []
    G = {"G_" + g: None for g in groups}
    cells = []
    for cmd, cn in ((0x10, "login"), (0x20, "data"), (0x30, "ping"), (0x40, "unknown")):
        for uid in ([1, 2] if tier == "quick" else [0, 1, 2, 15]):
            if cn == "unknown" and uid != 1:
                continue
            if cn == "data" and uid < 2:
                for to in ((-1, 1 - uid) if tier == "quick" else (-1, 0, 1)):
                    cells.append(("raw-%s-u%d-to%d" % (cn, uid, to), {"RAWCMD": hex(cmd), "UIDCELL": "(%d)" % uid, "TOCELL": "(%d)" % to}))
            else:
                cells.append(("raw-%s-u%d" % (cn, uid), {"RAWCMD": hex(cmd), "UIDCELL": "(%d)" % uid}))
    cells.append(("raw-nohdr", {"RAWHDR_OK": 0, "UIDCELL": "(1)"}))
    for cname, d in cells:
        defs = {"MODE": 2, "NL": 20, "NU": 2, "CMDCH": "(0)", "STUB_SC": None}
        defs.update(d)
        defs.update(G)
        jobs.append(Job("%s-%s" % (prefix, cname), harness, defs=defs, units=STEP_UNITS, hunits=SERVER_HUNITS, scale=STEP_B,
                        subst=SHRINK_STEP + MEMCPY_SUBST + STUB_SC_SUBST, unwind=44,
                        loops={"sendto": 130, "start_new_outpacket": STEP_B + 4, "save_to_outpacketq": STEP_B + 4, "send_raw": STEP_B + 4,
                               "handle_raw_data": STEP_B + 4, "base32_reverse_init": 34},
                        checks=checks, timeout=1500, mem_gb=6, flags=FS,
                        desc="one raw-mode datagram (%s) to the real raw_decode() from an arbitrary valid 2-slot state" % cname,
                        bounds="frame 0..40 bytes (all byte values after the header), 2 slots arbitrary within the invariant, scaled buffers",
                        functions=["raw_decode", "handle_raw_login", "handle_raw_data", "handle_raw_ping", "handle_full_packet", "send_raw",
                                   "check_user_and_ip"]))
    return jobs


def tun_jobs(tier, groups, prefix, checks=False, harness="S_step.c"):
    """MODE 3: tunnel_tun() with an arbitrary packet; cell = destination slot found for its address."""
    jobs = []
    G = {"G_" + g: None for g in groups}
    for to in ((-1, 1) if tier == "quick" else (-1, 0, 1)):
        defs = {"MODE": 3, "NL": 20, "NU": 2, "CMDCH": "(0)", "STUB_SC": None, "TOCELL": "(%d)" % to, "UIDCELL": "(%d)" % max(to, 0)}
        defs.update(G)
        jobs.append(Job("%s-tun-to%d" % (prefix, to), harness, defs=defs, units=STEP_UNITS, hunits=SERVER_HUNITS, scale=STEP_B,
                        subst=SHRINK_STEP + MEMCPY_SUBST + STUB_SC_SUBST, unwind=44,
                        loops={"sendto": 130, "start_new_outpacket": STEP_B + 4, "save_to_outpacketq": STEP_B + 4, "send_raw": STEP_B + 4,
                               "read_tun": 44, "base32_reverse_init": 34},
                        checks=checks, timeout=1500, mem_gb=6, flags=FS,
                        desc="one packet from the tun device to the real tunnel_tun() from an arbitrary valid 2-slot state, destination slot %d" % to,
                        bounds="packet <= 40 bytes arbitrary, compress2 result arbitrary, 2 slots arbitrary within the invariant, scaled buffers",
                        functions=["tunnel_tun", "find_user_by_ip", "start_new_outpacket", "save_to_outpacketq", "send_raw"]))
    return jobs


def dev_tun(tier):
    return tun_jobs(tier, ["AUTH", "INV", "ANS"], "x", harness="S_step.c")


def dup_jobs(tier, prefix, harness="S_step.c"):
    """C16: MODE 5 two-step re-delivery cells + the cache/query-memory half of the emission contract on the real function."""
    jobs = []
    cells = [("P", 80, 1, -1, 0), ("data1", 49, 1, -1, 0)]
    if tier != "quick":
        cells += [("p", 112, 1, -1, 0), ("P", 80, 0, -1, 0), ("data0", 48, 0, -1, 0), ("data1", 49, 1, -1, 3), ("data1", 49, 1, 0, 0)]
    for cn, ch, uid, to, e in cells:
        defs = {"MODE": 5, "NL": 20, "NU": 2, "CMDCH": "(%d)" % ch, "UIDCELL": "(%d)" % uid, "TOCELL": "(%d)" % to, "ENCSEL": e,
                "STUB_SC": None, "STUB_SC2": None}
        jobs.append(Job("%s-redeliver-%s-u%d-to%d-e%d" % (prefix, cn, uid, to, e), harness, defs=defs, units=STEP_UNITS, hunits=SERVER_HUNITS,
                        scale=STEP_B, subst=SHRINK_STEP1 + MEMCPY_SUBST + STUB_SC_SUBST, unwind=34,
                        loops={"sendto": 130, "start_new_outpacket": STEP_B + 4, "save_to_outpacketq": STEP_B + 4, "save_to_dnscache": STEP_B + 4,
                               "send_raw": STEP_B + 4, "handle_null_request": STEP_B + 4, "base32_reverse_init": 34, "base64_reverse_init": 66,
                               "base64u_reverse_init": 66, "base128_reverse_init": 130},
                        checks=False, timeout=2400, mem_gb=10, flags=FS,
                        desc="request X (%s) for an authorised session, then re-delivery of the same question with another id%s" %
                             (cn, " and changed letter case in the header" if cn.startswith("data") else ""),
                        bounds="names <= 20 chars, 2 slots arbitrary within the invariant, scaled buffers, answer cache and query memories scaled to ONE entry (the repeat follows its original immediately), emission = contract stub that runs "
                               "the real save_to_qmem_pingordata()/save_to_dnscache()",
                        functions=["handle_null_request", "answer_from_dnscache", "answer_from_qmem", "answer_from_qmem_data",
                                   "save_to_qmem_pingordata", "save_to_dnscache"]))
    for uid, qsel, ch in ((1, 1, 80),) if tier == "quick" else ((1, 1, 80), (1, 0, 49), (0, 0, 80), (0, 1, 48)):
        defs = {"MODE": 4, "NL": 20, "NU": 2, "UIDCELL": uid, "QSEL": qsel, "CMDCH": "(80)", "G_DUP": None}
        jobs.append(Job("%s-emit-dup-u%d-%s" % (prefix, uid, "q" if qsel == 0 else "qsoon"), harness, defs=defs, units=STEP_UNITS,
                        hunits=SERVER_HUNITS, scale=STEP_B, subst=SHRINK_STEP + MEMCPY_SUBST, unwind=34,
                        loops={"base32_reverse_init": 34, "base32_decode": 8, "send_chunk_or_dataless": STEP_B + 4, "start_new_outpacket": STEP_B + 4,
                               "save_to_outpacketq": STEP_B + 4, "save_to_dnscache": STEP_B + 4, "send_raw": STEP_B + 4},
                        checks=False, timeout=2400, mem_gb=12, flags=FS,
                        desc="the real send_chunk_or_dataless(): the answered query lands in the answer cache (verbatim payload) and in the "
                             "query memory (fingerprint)", bounds="as the emit cells",
                        functions=["send_chunk_or_dataless", "save_to_qmem_pingordata", "save_to_dnscache"]))
    return jobs


def dev_dup(tier):
    return dup_jobs(tier, "x", harness="S_step.c")


def dev_raw(tier):
    return raw_jobs(tier, ["AUTH", "INV"], "x", harness="S_step.c")


def emit_jobs(tier, groups, prefix, checks=False, timeout=1500):
    """MODE 4: the real send_chunk_or_dataless() against its contract (used as a stub in the ping/data cells)."""
    jobs = []
    G = {"G_" + g: None for g in groups}
    for uid in (0, 1):
        for qsel in (0, 1):
            if tier == "quick" and (uid, qsel) != (1, 1):
                continue        # quick: one emission cell (slot 1, send-real-soon query); thorough: all four
            defs = {"MODE": 4, "NL": 20, "NU": 2, "UIDCELL": uid, "QSEL": qsel, "CMDCH": "(80)"}
            defs.update(G)
            jobs.append(Job("%s-emit-u%d-%s" % (prefix, uid, "q" if qsel == 0 else "qsoon"), "S_step.c", defs=defs, units=STEP_UNITS,
                            hunits=SERVER_HUNITS, scale=STEP_B, subst=SHRINK_STEP + MEMCPY_SUBST, unwind=34,
                            loops={"base32_reverse_init": 34, "base32_decode": 8, "send_chunk_or_dataless": STEP_B + 4, "start_new_outpacket": STEP_B + 4, "save_to_outpacketq": STEP_B + 4, "save_to_dnscache": STEP_B + 4, "send_raw": STEP_B + 4},
                            checks=checks, timeout=timeout, mem_gb=12, flags=FS,
                            desc="the real send_chunk_or_dataless() on slot %d's held %s from an arbitrary valid state: contract, fragment "
                                 "size/numbering/flag assertions at the answer hook" % (uid, "query" if qsel == 0 else "send-real-soon query"),
                            bounds="2 slots arbitrary within the invariant, buffers scaled to %d, rings scaled, names <= 20 chars" % STEP_B,
                            functions=["send_chunk_or_dataless", "get_from_outpacketq", "start_new_outpacket", "save_to_qmem_pingordata",
                                       "save_to_dnscache"]))
    return jobs


import re
FS = ["--max-field-sensitivity-array-size", "64"]

def dev_auth(tier):
    return step_jobs(tier, ["INV", "AUTH"], "step-auth")


def dev_emit(tier):
    return emit_jobs(tier, ["INV", "FRAG"], "x")


def dev_ans(tier):
    return step_jobs(tier, ["ANS"], "ans")


def dev_frag(tier):
    return step_jobs(tier, ["FRAG"], "frag")


def dev_all(tier):
    return step_jobs(tier, ["INV", "AUTH", "FRAG", "ANS"], "step-all") + emit_jobs(tier, ["INV", "FRAG"], "step-all")


def c08_jobs(tier):
    q = tier == "quick"
    # encoder space = L - T - 8; shape cells around the dot-insertion edges (multiples of 57/58), the extremes, and L=255
    spaces = [57, 58, 116, 174, 232, 244] if q else \
             [16, 17, 56, 57, 58, 59, 113, 114, 115, 116, 117, 170, 171, 172, 173, 174, 175, 227, 228, 229, 230, 231, 232, 233, 243, 244]
    shape = []
    for sp in spaces:
        T = 255 - 8 - sp
        if 3 <= T <= 128:
            shape.append((255, T))
        else:
            L = max(100, sp + 11)
            shape.append((L, L - 8 - sp))
    shape += [(255, 15), (255, 73)] + ([] if q else [(100, 76), (100, 3), (152, 128), (254, 3), (200, 73)])
    if q:
        shape = [c for c in shape if c[0] == 255 or c == shape[0]]
    content = [(100, 76), (100, 60)] if q else [(100, 76), (100, 60), (100, 35), (100, 34)]
    jobs = []
    codecs = [("base32", "base32_ops", "base32.c", 5, 5, 8), ("base128", "base128_ops", "base128.c", 5, 7, 8),
              ("base64", "base64_ops", "base64.c", 5, 3, 4), ("base64u", "base64u_ops", "base64u.c", 5, 3, 4),
              ("base32", "base32_ops", "base32.c", 1, 5, 8)]
    seen = set()
    for name, ops, unit, hdr, raw, encb in codecs:
        for kind, cells in (("shape", shape), ("content", content)):
            for (L, T) in cells:
                if T < 3 or T > 128 or T > L - 24 or (name, hdr, kind, L, T) in seen:
                    continue
                seen.add((name, hdr, kind, L, T))
                if hdr == 1 and kind == "shape" and (L, T) not in shape[:3]:
                    continue
                if q and name in ("base64", "base64u") and ((kind == "shape" and (L, T) != (255, 15)) or (kind == "content" and (L, T) != content[0])):
                    continue
                if q and hdr == 1 and (kind, (L, T)) != ("content", content[0]):
                    continue
                sp = L - T - 8
                npay = sp * raw // encb + 3
                defs = {"OPS": ops, "SP": sp, "NP": npay, "HDR": hdr, "LCELL": L, "TCELL": T}
                if kind == "shape":
                    defs["CONCRETE_PAYLOAD"] = None
                    defs["CONCRETE_N"] = None
                jobs.append(Job("hostname-%s-%s-hdr%d-L%d-T%d" % (kind, name, hdr, L, T), "C08_hostname.c", defs=defs,
                                units=["encoding.c", unit], hunits=["vunit_common.c"],
                                unwind=L + 4, loops={"%s_encode" % name: npay // raw + 4, "%s_decode" % name: sp // encb + 6,
                                                     "%s_reverse_init" % name: 130, "inline_dotify": sp + 8, "inline_undotify": sp + 12,
                                                     "harness.0": 130, "harness.1": npay + 2, "harness.2": 7, "harness.3": 258, "harness.4": 258,
                                                     "query_datalen": T + 4, "strncpy": T + 4, "memset": 330},
                                timeout=1500, mem_gb=8, checks=False,
                                desc="build_hostname() as called by the client (header %d chars, L=%d, domain length %d) then "
                                     "query_datalen()+unpack_data() as called by the server; %s" %
                                     (hdr, L, T, "payload longer than the name can carry, fixed byte pattern: fully concrete run (degenerate query)" if kind == "shape"
                                      else "payload length and every byte symbolic (content lemma)"),
                                bounds="L=%d, domain length %d (encoder space %d): payload 1..%d bytes" % (L, T, sp, npay),
                                functions=["build_hostname", "inline_dotify", "unpack_data", "inline_undotify", "query_datalen",
                                           "%s_encode" % name, "%s_decode" % name]))
    return jobs


def c09_jobs(tier):
    n = 9 if tier == "quick" else 16
    jobs = []
    for kind, encs in ((1, "TSUV"), (2, "TSUVR")):
        for e in encs:
            jobs.append(Job("down-%s-%s-N%d" % ("name" if kind == 1 else "txt", e, n), "C09_down.c",
                            defs={"KIND": kind, "DOWNENC": "'%s'" % e, "NPAY": n, "TEXTSZ": (2 * n + 12) if kind == 2 else 64}, units=SERVER_UNITS,
                            hunits=SERVER_HUNITS + ["C09_cli.c"], scale=96, subst=SHRINK_ALL + [(r"\[4096\]", "[48]")], checks=False, flags=FS520,
                            unwind=max(2 * n + 16, 70), loops={"base32_reverse_init": 34, "base64_reverse_init": 66, "base64u_reverse_init": 66,
                                                  "base128_reverse_init": 130, "memset": 310, "strlen": 2 * n + 20},
                            timeout=1200, mem_gb=6,
                            desc=("server write_dns_nameenc() -> client dns_namedec()" if kind == 1 else
                                  "TXT text composed as write_dns() does -> client dns_namedec()") + ", downstream codec %s" % e,
                            bounds="payload 2..%d bytes, all byte values" % n,
                            functions=["write_dns_nameenc", "dns_namedec", "unpack_data", "inline_dotify", "inline_undotify", "base*_encode", "base*_decode"]))
    return jobs


def c13_jobs(tier):
    ns = 18 if tier == "quick" else 24
    jobs = [
        Job("setip-NS%d" % ns, "C13_shell.c", defs={"MODE": 1, "NS": ns}, units=[], unwind=ns + 4,
            loops={"snprintf": 50, "vsys_system": 90, "o_lit": 40, "vsn_num": 12, "harness": 8, "inet_ntoa": 6, "tun_setip": 34},
            timeout=1200,
            desc="real tun_setip() (LINUX) with two arbitrary address strings and an arbitrary netmask bit count; the command "
                 "handed to system() is parsed by an independent strict oracle",
            bounds="address texts 0..%d chars over all byte values, netbits any int, interface name <= 5 chars [a-z0-9]" % ns,
            functions=["tun_setip", "is_dotted_quad"], native_units=["common.c"]),
        Job("setmtu", "C13_shell.c", defs={"MODE": 2, "NS": ns}, units=[], unwind=ns + 4,
            loops={"snprintf": 50, "vsys_system": 90, "o_lit": 40, "vsn_num": 12, "harness": 8},
            timeout=600,
            desc="real tun_setmtu() with an arbitrary 32-bit value; command parsed by the oracle",
            bounds="mtu: all 2^32 values", functions=["tun_setmtu"], native_units=["common.c"]),
    ]
    return jobs


STEP_ASSUME = [
    "pre-state: 2 session slots, every field arbitrary subject to the representation invariant inv_user() of S_step.c, which is "
    "re-asserted on the post-state (inductive) by the C05 cells",
    "cell parameters made concrete per query: first character of the request, slot number named by the request, destination slot of a "
    "completed packet, upstream codec (data cells), socket address length (16), ring positions of queue/cache/query memory (0)",
    "scaling transform on the scratch copy: 64 KiB buffers -> 80 bytes, in[512] -> in[64], pkt[4096] -> pkt[82], answer cache entries "
    "4096 -> 72 bytes, QMEMPING_LEN 30 -> 3, QMEMDATA_LEN 15 -> 3, OUTPACKETQ_LEN 4 -> 2, DNSCACHE_LEN 4 -> 2",
    "memcpy statements of iodined.c rewritten to typed element copies at the call site (same bytes copied; CBMC cost only)",
    "write_dns() observed at the VERIF_WRITE_DNS_HOOK (wire encoding is C09/C10's subject); login_calculate = uninterpreted 16 bytes "
    "per call (C19 covers the real one); zlib = arbitrary result; time() = two arbitrary non-decreasing instants; rand() arbitrary",
    "in the ping/data cells send_chunk_or_dataless() is replaced by its contract, which the emit-* cells assert on the real function",
    "held queries' fromlen2 is normalised while id2 == 0 (it is only read under id2 != 0)",
]


def c03_jobs(tier):
    return step_jobs(tier, ["AUTH"], "auth") + raw_jobs(tier, ["AUTH"], "auth") + tun_jobs(tier, ["AUTH"], "auth")


def c04_jobs(tier):
    return step_jobs(tier, ["AUTH"], "iso", only=r"^(V|L|l|S|O|N|I|P|p|data[01])" if tier == "quick" else r"^(V|L|l|S|O|N|I|R|P|p|data[01])", fwd_quick=True) + \
        tun_jobs(tier, ["AUTH"], "iso") + [j for j in raw_jobs(tier, ["AUTH"], "iso") if re.search(r"raw-(login|data)-u[01]", j.name)]


def c05_jobs(tier):
    return step_jobs(tier, ["INV"], "safe", checks=True) + (emit_jobs(tier, ["INV"], "safe", checks=True) if tier != "quick" else []) + \
        raw_jobs(tier, ["INV"], "safe", checks=True) + tun_jobs(tier, ["INV"], "safe", checks=True)


def c16_jobs(tier):
    return dup_jobs(tier, "dup")


def c14_jobs(tier):
    return step_jobs(tier, ["ANS"], "ans", only=r"^(V|L|I|Z|S|O|Y|R|N|P|p|data)", fwd_quick=True) + \
        (emit_jobs(tier, [], "ans") if tier != "quick" else []) + tun_jobs(tier, ["ANS"], "ans")


def c15_jobs(tier):
    return step_jobs(tier, ["FRAG"], "frag", only=r"^(V-u[01]|N|P|p|data[01])") + emit_jobs(tier, ["FRAG"], "frag")


HOOK_COMMITS = ["d1d19fe", "9d69ff3", "db1ee90"]
PENDING = {}

PROPS = {
    "C03": {
        "jobs": c03_jobs, "level": "model_checking",
        "level_text": "Inductive one-step lemmas on the real request dispatcher: from every valid server state and for every request "
                      "(one SAT query per first-character x slot cell) the authenticated flags rise only through a correct login "
                      "response for that slot's current challenge, and a request for a slot that is dead, unauthenticated, bound to "
                      "another source or options-locked changes no state, writes nothing to the tun device and is answered BADIP/BADLEN only.",
        "level_note": "bounds and cuts per job (names <= 20..34 chars, 2 slots, scaled buffers); raw-mode frames are not yet covered by a cell; "
                      "histories of any length follow from the invariant being inductive (C05 cells).",
        "explanation": "one CBMC query per cell of handle_null_request(); the pre-state is symbolic",
        "assumptions": STEP_ASSUME,
    },
    "C04": {
        "jobs": c04_jobs, "level": "model_checking",
        "level_text": "Same one-step lemmas read for isolation: with source checking on, a request naming a slot from another address "
                      "(IPv4/IPv6 family and address symbolic) changes nothing and gets BADIP; the version handler only takes a slot that "
                      "is unused or silent for more than 60 s (clock symbolic across the boundary), never a disabled one, and leaves all "
                      "other slots untouched; a data request can touch another session only by forwarding to the live logged-in owner "
                      "of the packet's destination address.",
        "level_note": "tun-device routing (tunnel_tun) is covered only through handle_full_packet's forwarding cells; 2 slots.",
        "explanation": "one CBMC query per cell; check_ip symbolic",
        "assumptions": STEP_ASSUME,
    },
    "C05": {
        "jobs": c05_jobs, "level": "model_checking",
        "level_text": "CBMC memory-safety/UB instrumentation (bounds, pointers, signed overflow, shifts, division) plus unwinding "
                      "assertions on every command cell of the real dispatcher from an arbitrary valid state, and the representation "
                      "invariant re-asserted afterwards (so the next datagram starts from a covered state); other slots' records are "
                      "compared field by field in the C03/C04 cells. The DNS decoder feeding the dispatcher is covered by the C12/C06 decoder cells.",
        "level_note": "names <= 20 chars in the dispatcher cells (255 in the decoder cells), scaled buffers, see assumptions.",
        "explanation": "one CBMC query per cell with all standard checks on",
        "assumptions": STEP_ASSUME,
    },
    "C14": {
        "jobs": c14_jobs, "level": "model_checking",
        "level_text": "One-step multiset lemma at the answer hook: every answer emitted in a step carries id, question and address of the "
                      "incoming query or of a query held in the pre-state (or its remembered duplicate), each at most once; an answered "
                      "query is no longer held; a held query is answered or kept, never overwritten; the emission routine answers the "
                      "held query once plus its duplicate once.",
        "level_note": "DNS ids of the pending queries assumed pairwise distinct; 2 slots; tun arrival path via the emission lemma only.",
        "explanation": "one CBMC query per cell; answers observed at the write_dns hook",
        "assumptions": STEP_ASSUME + ["ids of incoming + held queries + duplicates pairwise distinct"],
    },
    "C15": {
        "jobs": c15_jobs, "level": "model_checking",
        "level_text": "Assertions at the answer hook of the real send_chunk_or_dataless() from an arbitrary valid state: payload after the "
                      "2-byte header <= fragsize and <= bytes remaining, last flag iff offset+len reaches the packet length, fragment and "
                      "sequence numbers as stored, bytes taken from the packet at the offset; N installs exactly the requested size and "
                      "refuses < 2; V installs 100; an ack advances the fragment number by exactly one.",
        "level_note": "fragsize symbolic 2..65535 but buffers scaled to 80 bytes (so payloads <= 80); 4-bit wrap beyond 16 fragments outside the claim.",
        "explanation": "one CBMC query per cell",
        "assumptions": STEP_ASSUME,
    },
    "C08": {
        "jobs": c08_jobs, "level": "model_checking",
        "level_text": "The real build_hostname()/inline_dotify() as the client calls them and query_datalen()/unpack_data() as the "
                      "server calls them, checked against an oracle written from the statement. Content cells: one SAT query decides "
                      "every payload (length and bytes) for a concrete (L, domain length); filled-name cells: concrete runs at the "
                      "dot-insertion edges and at L=255 (degenerate queries: symex folds them), because the symbolic version did not finish.",
        "level_note": "content cells only for small encoder spaces (<= 32..58 chars); the large (L, domain) cells are concrete "
                      "executions, i.e. weaker than a solver verdict; (L, domain) pairs are an enumerated edge list, not all pairs.",
        "explanation": "per cell one CBMC run; see per-job bounds",
        "assumptions": ["domain text is a fixed pattern of the given length (build_hostname only uses its length)",
                        "header characters arbitrary non-dot non-NUL bytes", "warnx no-op"],
    },
    "C09": {
        "jobs": c09_jobs, "level": "model_checking",
        "level_text": "Partial: payload coding of downstream answers without the DNS record framing. Hostname answers: real server "
                      "write_dns_nameenc() -> real client dns_namedec(); TXT answers: text composed as write_dns() composes it -> real "
                      "dns_namedec(); for every payload within the bound the client extracts exactly the bytes the writer put in.",
        "level_note": "payload <= 9/16 bytes; record framing (dns_encode/dns_decode), MX/SRV splitting and ordering, TXT 255-byte strings and "
                      "the size-monotonicity claim are NOT covered (no verdict within memory for the full writer->reader path).",
        "explanation": "one SAT query per (answer kind, downstream codec)",
        "assumptions": ["write_dns()'s TXT branch (three glue lines) repeated in the harness", "record framing outside the claim"],
    },
    "C16": {
        "jobs": c16_jobs, "level": "model_checking",
        "level_text": "Two-step lemma on the real dispatcher: a fresh ping/data query X to an authorised session from an arbitrary valid "
                      "state, then its re-delivery X' (other DNS id; for data queries any letter case of the header characters): the second "
                      "step appends nothing to the upstream buffer, writes nothing to the tun device, does not apply the ack again, changes "
                      "no setting, and an identical repeat of an answered query receives the cached payload. The emission routine is a "
                      "contract stub that runs the real save_to_qmem_pingordata()/save_to_dnscache(); the emit-dup cells assert on the "
                      "real send_chunk_or_dataless() that the answered query lands in cache and query memory with exactly those contents.",
        "level_note": "immediate repeat only: answer cache and query memories scaled to ONE entry, so 'still among the last 4/15/30' is "
                      "not covered; downstream queue empty; query memories empty before X; names <= 20 chars; 2 slots.",
        "explanation": "one CBMC query per cell (two handler invocations per query)",
        "assumptions": STEP_ASSUME + ["X differs from the pending and cached questions; query memories empty; downstream queue empty",
                                      "ids of incoming + held queries pairwise distinct"],
    },
    "C13": {
        "jobs": c13_jobs, "level": "model_checking",
        "level_text": "The real tun_setip()/tun_setmtu() (LINUX variant) run on arbitrary strings/numbers; the command string handed to "
                      "system() is checked by an independent strict parser (fixed ifconfig invocation, strict dotted quads, mtu 201..1500).",
        "level_note": "address texts <= 18/24 chars; snprintf/inet_ntoa modelled in the harness (CBMC build only; native replay uses glibc); "
                      "interface name is local input (<= 5 chars [a-z0-9]).",
        "explanation": "two CBMC queries; every byte of both address strings symbolic",
        "assumptions": ["snprintf(%s,%u,%d)/inet_ntoa models", "interface name chosen locally", "LINUX variant of tun.c"],
    },
    "C06": {
        "jobs": c06_jobs, "level": "model_checking",
        "level_text": "CBMC's memory-safety/UB instrumentation (bounds, pointer validity, pointer overflow, signed overflow, shifts) "
                      "plus unwinding assertions on the client's real reply path, split into lemmas: name reader, record decoder "
                      "per type, reply post-processing, handshake parsers; every reply byte symbolic within the bound.",
        "level_note": "see per-job bounds; name reader replaced by its contract in the decoder cells (contract proved in the readname job).",
        "explanation": "each job is one SAT query over all replies within its bound",
        "assumptions": ["recvfrom/select stubs deliver an arbitrary datagram", "malloc does not fail", "warnx/fprintf are no-ops"],
    },
    "C12": {
        "jobs": c12_jobs, "level": "model_checking",
        "level_text": "2-safety by self-composition on the real decoder: two receive buffers that agree on the datagram and differ "
                      "arbitrarily beyond it must give identical results (return value, name, type, id, rcode, payload); one SAT "
                      "query per cell covers every datagram up to the bound and every residue.",
        "level_note": "datagrams <= 36/48 (query) and <= 40/52 (answer) bytes, compression depth budget 3/4 (query) and 2 (answer) instead of 10, "
                      "answer cells with a concrete question section and scaled rdata/name tables; raw frames and the echo sites are "
                      "covered through the server step harness (C05).",
        "explanation": "non-interference of the residue is asserted directly on the two runs",
        "assumptions": ["read.c/dns.c compiled with memcpy->byte loop (vmemcpy) for tractability", "compression-pointer depth budget reduced (stated per job)",
                        "warnx is a no-op"],
    },
    "C20": {
        "jobs": c20_jobs, "level": "model_checking",
        "level_text": "Ring lemma by bounded symbolic execution from the initial state (more than 16 outstanding forwards, ids free "
                      "16-bit values so the solver chooses the collisions), plus forward_query/tunnel_bind with a strict reference "
                      "parser on the relayed datagram.",
        "level_note": "<= 20 (quick) / 36 (thorough) forwards since start; sendto/recvfrom are recorder stubs; names <= 20 chars.",
        "explanation": "one SAT query per harness; the lookup id and every put are symbolic",
        "assumptions": ["sendto/recvfrom stubs record/deliver arbitrary datagrams", "inet_addr(\"127.0.0.1\") modelled",
                        "strtok/strdup models (vlibc.h)"],
    },
    "C19": {
        "jobs": c19_jobs, "level": "model_checking",
        "level_text": "login_calculate's XOR/endianness/length is decided for all 2^288 (password, challenge) pairs with MD5 replaced "
                      "by a recorder; md5.c is compared to an independent RFC 1321 implementation on a bounded symbolic "
                      "sub-space of 32-byte messages plus concrete vectors (full 256-bit equivalence did not finish on any back end).",
        "level_note": "MD5 equivalence only on 32-byte messages with one symbolic byte per query (2 positions quick, 8 thorough) plus "
                      "the RFC 1321 vectors: MD5 resists SAT, 2 symbolic bytes did not finish in 400 s on any back end; "
                      "raw-mode challenge+1/-1 call sites are checked under C03 (server) - see DESIGN.md.",
        "explanation": "split: (a) xor/endianness/length exact for all inputs, (b) md5.c==MD5 on a bounded sub-space, (c) concrete pipeline vectors",
        "assumptions": ["MD5 equivalence restricted to the stated sub-space", "little-endian x86-64 target as in the real build"],
    },
    "C18": {
        "jobs": c18_jobs, "level": "model_checking",
        "level_text": "init_users executed symbolically for every server address and every prefix length 8..30 in one query; "
                      "find_user_by_ip from an arbitrary table. Exhaustive within the type widths (no sampling of positions).",
        "level_note": "libc models (CBMC build only): snprintf(\"0.0.0.%d\")+inet_addr composition, htonl/ntohl builtins; "
                      "time() constant during one lookup; calloc never fails.",
        "explanation": "two SAT queries; my_ip is a free 32-bit vector, netbits a free int in 8..30",
        "assumptions": ["snprintf/inet_addr modelled for the one format used", "time() constant within one lookup",
                        "last_pkt <= now (session invariant)", "malloc/calloc do not fail"],
    },
    "C17": {
        "jobs": c17_jobs, "level": "model_checking",
        "level_text": "Differential bounded check: real check_topdomain/query_datalen against a reference written from the "
                      "statement, strings fully symbolic over all byte values (short) and shaped from symbolic label "
                      "lengths (63/64 and 128/129 boundaries); reference first validated on the repo's own test vectors.",
        "level_note": "domain <= 8/10 and name <= 12/16 chars fully symbolic; long strings only of the shaped form; C locale "
                      "(CBMC models of tolower/isdigit). Names with consecutive dots excluded as the property states.",
        "explanation": "one SAT query per mode; the solver searches all strings within the bound for a disagreement",
        "assumptions": ["C locale ctype (CBMC library models of tolower/isdigit)", "query names contain no '..' (stated precondition)",
                        "matching only checked against domains the reference accepts (allow_wildcard=1)"],
    },
    "C07": {
        "jobs": c07_jobs, "level": "model_checking",
        "level_text": "Bounded exhaustive by solver: for each of the four real codec units one SAT query covers every input "
                      "of 0..N bytes x every capacity x every guard/inspected index; asserts losslessness, alphabet, "
                      "length ratio, capacity safety, consumed-count exactness, case-insensitive Base32, and decoder "
                      "safety on arbitrary text. Right level because the codecs are pure bit-vector kernels.",
        "level_note": "N=16 (quick) / 40 (thorough) input bytes; longer inputs rely on block periodicity (not proved). "
                      "Trusted: CBMC, goto-cc front end, the sed rule re-implemented in python for base64u.c.",
        "explanation": "bounded symbolic execution of the four real codec units; every input byte string up to N bytes, "
                       "every capacity, every guard position, in one SAT query per codec",
        "assumptions": ["input length <= N (N=16 quick, 40 thorough); longer inputs outside the claim (block-periodic code, not proved)",
                        "base64u.c regenerated from base64.c with the Makefile sed rule on every run",
                        "char is signed (x86-64 gcc ABI), as in the real build"],
    },
}


def dev_none(tier):
    return step_jobs(tier, [], "step-none")


def dev_inv(tier):
    return step_jobs(tier, ["INV"], "step-inv")


def dev_m0(tier):
    js = step_jobs(tier, [], "step-m0", only="^Z$")
    for j in js:
        j.defs["MODE"] = 0
    return js


def dev_x1(tier):
    js = step_jobs(tier, ["AUTH"], "x1", only="^Z$")
    for j in js:
        j.defs["NO_BYTECAST"] = None
    return js


def dev_x2(tier):
    out = []
    for p in (0, 1, 2, 4, 8):
        js = step_jobs(tier, ["AUTH"], "x2p%d" % p, only="^Z$")
        for j in js:
            j.defs["SAME_PARTS"] = p
        out += js
    return out


def dev_cut(tier):
    import os
    js = step_jobs(tier, ["AUTH"], "cut", only=os.environ.get("CUTCELL", "^P-u1$"))
    out = []
    cuts = {
        "d1-after-ack": (r"(\t\tif \(up_seq == users\[userid\]\.inpacket\.seqno &&\n)", r"__CPROVER_assume(0);\n\1"),
        "d2-before-unpack": (r"(\t\tif \(upstream_ok\) \{\n\t\t\t/\* decode with this user's encoding \*/)", r"__CPROVER_assume(0);\n\1"),
        "d3-before-full": (r"(\t\tif \(upstream_ok && lastfrag\) \{ /\* packet is complete \*/)", r"__CPROVER_assume(0);\n\1"),
        "d4-after-full": (r"(\t\t/\* If there is a query that must be returned real soon, do it.\n\t\t   Includes an ack)", r"__CPROVER_assume(0);\n\1"),
    }
    for cn, sub in cuts.items():
        for j in js:
            import copy
            k = copy.copy(j)
            k.name = j.name + "-" + cn
            k.subst = [sub] + list(j.subst)
            out.append(k)
    return out
