"""Job registry: property id -> list of CBMC queries per tier."""
from vlib.core import Job

CODECS = [("base32", "base32_ops", 32, 5, 5, 8, "base32.c"),
          ("base64", "base64_ops", 64, 6, 3, 4, "base64.c"),
          ("base64u", "base64u_ops", 65, 6, 3, 4, "base64u.c"),
          ("base128", "base128_ops", 128, 7, 7, 8, "base128.c")]


def c07_jobs(tier):
    jobs = []
    sizes = [16] if tier == "quick" else [16, 40]
    for name, ops, cid, bits, raw, encb, unit in CODECS:
        for n in sizes:
            capmax = 2 * n + 6
            encit = n // raw + 3
            decit = (capmax + 1) // encb + 3
            jobs.append(Job(
                "codec-%s-N%d" % (name, n), "C07_codec.c",
                defs={"OPS": ops, "CID": cid, "BITS": bits, "N": n}, units=[unit],
                loops={"%s_encode" % name: encit, "%s_decode" % name: decit,
                       "%s_reverse_init" % name: 130, "harness": capmax + 6},
                timeout=900 if tier == "quick" else 3000,
                desc="encode with symbolic capacity, decode back, alphabet/ratio/guard assertions",
                bounds="input length 0..%d bytes (all byte values), capacity 0..%d, decoder capacity 0..%d" % (n, capmax, n),
                functions=["%s_encode" % name, "%s_decode" % name, "%s_reverse_init" % name]))
        t = 18 if tier == "quick" else 40
        jobs.append(Job(
            "decode-any-%s-T%d" % (name, t), "C07_decode_any.c",
            defs={"OPS": ops, "CID": cid, "T": t}, units=[unit],
            loops={"%s_decode" % name: t // encb + 3, "%s_reverse_init" % name: 130},
            timeout=900,
            desc="decoder (and b32_8to5/b32_5to8) on arbitrary text incl. bytes >= 0x80",
            bounds="text length 0..%d, all byte values, capacity 0..%d" % (t, t),
            functions=["%s_decode" % name, "b32_8to5", "b32_5to8"]))
    return jobs


HOOK_COMMITS = []
PENDING = {}

PROPS = {
    "C07": {
        "jobs": c07_jobs, "level": "model_checking",
        "level_text": "Bounded exhaustive by solver: for each of the four real codec units one SAT query covers every input "
                      "of 0..N bytes x every capacity x every guard/inspected index; asserts losslessness, alphabet, "
                      "length ratio, capacity safety, consumed-count exactness, case-insensitive Base32, and decoder "
                      "safety on arbitrary text. Right level because the codecs are pure bit-vector kernels.",
        "level_note": "N=16 (quick) / 40 (thorough) input bytes; longer inputs rely on block periodicity (not proved). "
                      "Trusted: CBMC, goto-cc front end, the sed rule re-implemented in python for base64u.c.",
        "explanation": "bounded symbolic execution of the four real codec units; every input byte string up to N bytes, "
                       "every capacity, every guard position, in one SAT query per codec",
        "assumptions": ["input length <= N (N=16 quick, 40 thorough); longer inputs outside the claim (block-periodic code, not proved)",
                        "base64u.c regenerated from base64.c with the Makefile sed rule on every run",
                        "char is signed (x86-64 gcc ABI), as in the real build"],
    },
}
