#!/usr/bin/env python3
"""Regenerates MANIFEST.json from jobs.PROPS + the static texts below."""
import json, os, sys
sys.path.insert(0, os.path.dirname(os.path.abspath(__file__)))
import jobs

ALL = ["C%02d" % i for i in range(1, 21)]
NA_REASON = {
    "C01": "end-to-end co-execution of client and server fragment/ack machines: even one server step needed a 10 GB query after "
           "heavy cell splitting (see DESIGN.md 1b); a multi-fragment two-program run is out of reach of bounded symbolic execution "
           "here, and integrity under arbitrary loss rests on zlib's Adler-32, which is not encodable. Codec/hostname exactness is "
           "covered by C07/C08/C09.",
    "C10": "needs the strict RFC 1035 oracle applied to write_dns()/dns_encode_*() output: the writer->wire path gave no verdict "
           "within memory (same obstacle as the full C09); only forward_query's relayed datagram is parsed by the oracle (under C20)",
    "C02": "liveness/recovery over two timer-driven select() loops under fairness: not expressible as a bounded "
           "safety assertion over single steps, and a from-any-state bounded-recovery search needs >=15 real steps per side "
           "with 64 KiB states (each step 10-40 s of solver time) - outside the reach of bounded symbolic execution here",
    "C11": "quantifies over relay families applied to a ~15-step two-program handshake with retries and timeouts; the "
           "solver-checkable size-monotonicity lemmas need the full answer writer->reader path, which gave no verdict within memory",
}
m = {
    "version": 1,
    "setup_cmd": "python3 /verif/check.py --selftest",
    "hooks": {
        "guard": "IODINE_VERIF",
        "enable": "checks compile a scratch copy of /repo/src with goto-cc -DIODINE_VERIF (see vlib/core.py BASE_CFLAGS)",
        "baseline_off_cmd": "make -C /repo test",
        "source_commits": jobs.HOOK_COMMITS,
        "add_only": True,
    },
    "engines": [{
        "name": "cbmc-bounded-symbolic", "path": "/verif/check.py",
        "serves_properties": sorted(jobs.PROPS.keys()),
        "kind_free_text": "bounded symbolic execution of the real C translation units (goto-cc + CBMC 6.11, SAT back end), "
                          "harness per property, native ASan/UBSan replay of counterexamples",
    }],
    "checks": [],
    "not_applicable": [],
    "notes": "All verdicts are bounded (see each evidence file for the bounds and the cuts). exit 2 = machinery could not "
             "decide (never reported as success). known_findings.txt lists recorded/fixed genuine defects.",
}
for pid in ALL:
    if pid in jobs.PROPS:
        sp = jobs.PROPS[pid]
        m["checks"].append({
            "property_id": pid,
            "quick_cmd": "python3 check.py %s --tier quick" % pid,
            "thorough_cmd": "python3 check.py %s --tier thorough" % pid,
            "evidence_file": "/verif/evidence/%s.json" % pid,
            "replay_cmd_template": "python3 check.py --replay {path}",
            "engine": "cbmc-bounded-symbolic",
            "level_claimed": {"category": sp.get("level", "model_checking"), "text": sp["level_text"],
                              "design_ref": "DESIGN.md section 1, " + pid},
            "level_note": sp["level_note"],
            "technique": sp.get("technique", "bounded symbolic execution of the real C code with CBMC (SAT), unwinding assertions on"),
        })
    else:
        m["not_applicable"].append({"property_id": pid, "reason": NA_REASON.get(pid, jobs.PENDING.get(pid, "not yet covered"))})
json.dump(m, open(os.path.join(os.path.dirname(os.path.abspath(__file__)), "MANIFEST.json"), "w"), indent=1)
print("checks:", [c["property_id"] for c in m["checks"]])
