import sys, os, re
sys.path.insert(0, "/verif")
from vlib import core
from vlib.core import Runner, Result
import jobs, atexit
fn, rx = sys.argv[1], sys.argv[2]
tier = sys.argv[3] if len(sys.argv) > 3 else "quick"
j = [j for j in getattr(jobs, fn)(tier) if re.search(rx, j.name)][0]
rn = Runner("DEV", tier)
atexit.unregister(rn.scratch.cleanup)
res = Result(j)
binf, jd = rn.build(j, res)
uw = rn.unwindset(j, binf)
base = core.CBMC_BASE_FLAGS if j.checks else core.CBMC_MIN_FLAGS
cmd = ["cbmc", binf, "--function", j.entry] + base + uw + (["--unwind", str(j.unwind)] if j.unwind else []) + (["--object-bits", str(j.object_bits)] if j.object_bits else []) + ["--sat-solver", j.solver] + j.flags
print(" ".join(cmd))
print("SCRATCH", rn.scratch.root)
