"""Core machinery: scratch build from /repo's working tree, goto-cc/cbmc driver,
result classification, native replay, evidence writer.

Everything is regenerated on every run from /repo/src as it is *now* (working tree).
Scratch lives under /var/tmp/iodine-verif.<pid> and is removed at exit.
"""
import atexit, concurrent.futures as cf, hashlib, json, os, re, resource, shutil, signal
import subprocess, sys, threading, time

REPO = os.environ.get("VERIF_REPO", "/repo")
VERIF = os.path.dirname(os.path.dirname(os.path.abspath(__file__)))
HARNESS_DIR = os.path.join(VERIF, "harness")
GUARD = "IODINE_VERIF"
BASE_CFLAGS = ["-std=c99", "-DLINUX", "-D_GNU_SOURCE", "-D" + GUARD, "-DGITREVISION=\"verif\""]
# CBMC build only: make glibc ctype macros (table lookups via __ctype_b_loc) plain calls so that CBMC's
# library models of isdigit/tolower apply (C locale)
CBMC_ONLY_CFLAGS = ["-D__NO_CTYPE"]

CBMC_BASE_FLAGS = [
    "--unwinding-assertions", "--bounds-check", "--pointer-check",
    "--signed-overflow-check", "--undefined-shift-check",
    "--div-by-zero-check", "--drop-unused-functions", "--no-malloc-may-fail",
]
# jobs with checks=False: property assertions + array bounds only (used where the code contains
# pointer idioms that CBMC's pointer checks flag but no sanitizer can confirm, e.g. md5.c's
# alignment test `(data - (const md5_byte_t *)0) & 3`; listed in DESIGN.md)
CBMC_MIN_FLAGS = ["--no-standard-checks", "--bounds-check", "--unwinding-assertions", "--drop-unused-functions",
                  "--no-malloc-may-fail"]
FS520 = ["--max-field-sensitivity-array-size", "520"]


class CheckError(Exception):
    """The machinery itself failed (build error, timeout, vacuous harness, ...)."""


class Scratch:
    def __init__(self):
        self.root = "/var/tmp/iodine-verif.%d" % os.getpid()
        shutil.rmtree(self.root, ignore_errors=True)
        os.makedirs(self.root)
        atexit.register(self.cleanup)
        self.src = os.path.join(self.root, "src")
        self._copy_src(self.src)
        self.scaled = {}
        self.lock = threading.Lock()

    def cleanup(self):
        shutil.rmtree(self.root, ignore_errors=True)

    def _copy_src(self, dst):
        os.makedirs(dst)
        s = os.path.join(REPO, "src")
        for f in os.listdir(s):
            if f.endswith((".c", ".h")) and f != "base64u.c":
                shutil.copy(os.path.join(s, f), os.path.join(dst, f))
        # base64u.c: the Makefile's sed rule, re-applied to the current base64.c
        b64 = open(os.path.join(dst, "base64.c"), encoding="latin-1").read()
        out = ["/* No use in editing, produced by Makefile! */"]
        for line in b64.split("\n"):
            line = re.sub(r"([Bb][Aa][Ss][Ee]64)", r"\1u", line)
            line = line.replace("0123456789+", "0123456789_", 1)
            out.append(line)
        open(os.path.join(dst, "base64u.c"), "w", encoding="latin-1").write("\n".join(out))

    def scaled_src(self, B, subst=()):
        """Buffer-scaling transform: every literal 64*1024 / 65536 -> B, plus per-job extra
        (regex, replacement) rules (scratch copy only; substitutions are counted)."""
        if B is None and not subst:
            return self.src, 0
        with self.lock:
            return self._scaled_src(B, tuple(subst))

    def _scaled_src(self, B, subst):
        key = (B, subst)
        B, key = (B, key)
        if key in self.scaled:
            return self.scaled[key]
        dst = os.path.join(self.root, "src_s%s_%s" % (B, hashlib.sha1(repr(subst).encode()).hexdigest()[:8]))
        os.makedirs(dst)
        n = 0
        for f in os.listdir(self.src):
            t = open(os.path.join(self.src, f), encoding="latin-1").read()
            if B is not None:
                t, k = re.subn(r"\b64\s*\*\s*1024\b|\b65536\b", "(%d)" % B, t)
                n += k
            for rule in subst:
                rx, rp = rule[0], rule[1]
                if len(rule) > 2 and rule[2] != f:
                    continue        # rule restricted to one file
                t, k = re.subn(rx, rp, t)
                n += k
            open(os.path.join(dst, f), "w", encoding="latin-1").write(t)
        self.scaled[key] = (dst, n)
        return dst, n


def run(cmd, timeout=None, cwd=None, mem_gb=None, env=None):
    def pre():
        os.setsid()
        if mem_gb:
            lim = int(mem_gb * (1 << 30))
            resource.setrlimit(resource.RLIMIT_AS, (lim, lim))
    t0 = time.time()
    p = subprocess.Popen(cmd, cwd=cwd, stdout=subprocess.PIPE, stderr=subprocess.PIPE,
                         preexec_fn=pre, env=env)
    try:
        out, err = p.communicate(timeout=timeout)
        to = False
    except subprocess.TimeoutExpired:
        try:
            os.killpg(p.pid, signal.SIGKILL)
        except ProcessLookupError:
            pass
        out, err = p.communicate()
        to = True
    return p.returncode, out.decode("latin-1"), err.decode("latin-1"), time.time() - t0, to


class Job:
    """One solver query: a harness + compile-time cell parameters."""

    def __init__(self, name, harness, defs=None, units=(), scale=None, loops=None,
                 unwind=None, timeout=600, mem_gb=12, flags=(), entry="harness",
                 desc="", bounds="", functions=(), object_bits=None, checks=True,
                 native_units=None, expect_reach=None, subst=(), solver="cadical", hunits=(), unit_defs=None):
        self.unit_defs = dict(unit_defs or {})   # per-unit extra -D (CBMC build only)
        self.hunits = list(hunits)           # extra units living in /verif/harness
        self.solver = solver
        self.subst = list(subst)
        self.name = name
        self.harness = harness
        self.defs = dict(defs or {})
        self.units = list(units)
        self.scale = scale
        self.loops = dict(loops or {})       # function name -> unwind bound (all loops in it)
        self.unwind = unwind                 # default bound for every other loop
        self.timeout = timeout
        self.mem_gb = mem_gb
        self.flags = list(flags)
        self.entry = entry
        self.desc = desc
        self.bounds = bounds
        self.functions = list(functions)
        self.object_bits = object_bits
        self.checks = checks
        self.native_units = native_units     # units for native replay (default: units)
        self.expect_reach = expect_reach


class Result:
    def __init__(self, job):
        self.job = job
        self.ok = False
        self.error = None          # machinery error string
        self.failed = []           # list of dicts: property failures (violations)
        self.unwind_failed = []
        self.n_props = 0
        self.n_prop_asserts = 0
        self.n_safety = 0
        self.n_reach = 0
        self.n_unknown = 0
        self.n_ptrform = 0
        self.reach_ok = 0
        self.t_build = 0.0
        self.t_cbmc = 0.0
        self.solver_s = 0.0
        self.witness = None
        self.cmd = ""
        self.vars = None
        self.rss_mb = None
        self.subst = 0


def _val(v):
    if "elements" in v:
        return [_val(x["value"]) for x in v["elements"]]
    if "members" in v:
        return {m["name"]: _val(m["value"]) for m in v["members"]}
    return v.get("data")


def c_init(v):
    """CBMC trace value -> C initializer text."""
    if isinstance(v, list):
        return "{" + ",".join(c_init(x) for x in v) + "}"
    if isinstance(v, dict):
        return "{" + ",".join(".%s=%s" % (k, c_init(x)) for k, x in v.items()
                              if not k.startswith("$")) + "}"
    if v is None:
        return "0"
    s = str(v)
    if s in ("TRUE", "true"):
        return "1"
    if s in ("FALSE", "false"):
        return "0"
    if s.startswith("'"):  # char literal as printed by cbmc
        return s
    m = re.match(r"^-?\d+", s)
    if m and re.match(r"^-?\d+[uUlL]*$", s):
        if s.startswith("-9223372036854775808"):
            return "(-9223372036854775807L-1)"
        if s.startswith("-2147483648"):
            return "(-2147483647-1)"
        return s
    return "0 /* %s */" % s.replace("*/", "")


def trace_input(trace):
    """Last whole-struct assignment to IN inside the harness."""
    val = None
    for s in trace:
        if s.get("stepType") == "assignment" and s.get("lhs") == "IN":
            val = _val(s["value"])
    return val


def compact(v, maxlen=64):
    """Shorten sample values for evidence."""
    if isinstance(v, list):
        if len(v) > maxlen:
            return [compact(x) for x in v[:maxlen]] + ["...(%d more)" % (len(v) - maxlen)]
        return [compact(x) for x in v]
    if isinstance(v, dict):
        return {k: compact(x) for k, x in v.items() if not k.startswith("$")}
    return v


class Runner:
    def __init__(self, prop, tier, seed=0):
        self.prop = prop
        self.tier = tier
        self.seed = seed
        self.scratch = Scratch()
        self.t0 = time.time()

    # ---------- build ----------
    def build(self, job, res):
        src, nsub = self.scratch.scaled_src(job.scale, job.subst)
        res.subst = nsub
        jd = os.path.join(self.scratch.root, "job_" + re.sub(r"\W", "_", job.name))
        os.makedirs(jd, exist_ok=True)
        defs = ["-D%s=%s" % (k, v) if v is not None else "-D%s" % k for k, v in job.defs.items()]
        objs = []
        cmdbase = ["goto-cc"] + BASE_CFLAGS + CBMC_ONLY_CFLAGS + ["-I", src, "-I", HARNESS_DIR] + defs
        for u in [os.path.join(HARNESS_DIR, h) for h in [job.harness] + job.hunits] + [os.path.join(src, u) for u in job.units]:
            o = os.path.join(jd, os.path.basename(u) + ".gb")
            ud = ["-D%s=%s" % kv for kv in job.unit_defs.get(os.path.basename(u), {}).items()]
            rc, out, err, dt, to = run(cmdbase + ud + ["-c", u, "-o", o], timeout=300)
            if rc != 0:
                raise CheckError("goto-cc failed for %s:\n%s" % (u, (out + err)[-3000:]))
            objs.append(o)
        binf = os.path.join(jd, "h.gb")
        rc, out, err, dt, to = run(["goto-cc"] + objs + ["-o", binf], timeout=300)
        if rc != 0:
            raise CheckError("goto-cc link failed:\n%s" % ((out + err)[-3000:]))
        return binf, jd

    def unwindset(self, job, binf):
        if not job.loops:
            return []
        rc, out, err, dt, to = run(["cbmc", binf, "--show-loops", "--function", job.entry], timeout=120)
        ids = re.findall(r"^Loop (\S+):", out, re.M)
        sets = []
        for lid in ids:
            fn = lid.rsplit(".", 1)[0]
            fn_plain = re.sub(r"^__CPROVER_file_local_\w+?_c_", "", fn)
            num = lid.rsplit(".", 1)[1]
            for key in (fn + "." + num, fn_plain + "." + num, fn, fn_plain):
                if key in job.loops:
                    sets.append("%s:%d" % (lid, job.loops[key]))
                    break
        return ["--unwindset", ",".join(sets)] if sets else []

    # ---------- solve ----------
    def solve(self, job):
        res = Result(job)
        try:
            t = time.time()
            binf, jd = self.build(job, res)
            uw = self.unwindset(job, binf)
            res.t_build = time.time() - t
            base = CBMC_BASE_FLAGS if job.checks else CBMC_MIN_FLAGS
            cmd = ["cbmc", binf, "--function", job.entry] + base + uw
            if job.unwind:
                cmd += ["--unwind", str(job.unwind)]
            if job.object_bits:
                cmd += ["--object-bits", str(job.object_bits)]
            if job.solver:
                cmd += ["--sat-solver", job.solver]
            cmd += job.flags + ["--trace", "--json-ui"]
            res.cmd = " ".join(cmd[2:])
            tcmd = ["/usr/bin/time", "-f", "VRSS=%M"] + cmd
            tmo = job.timeout
            if os.environ.get("VERIF_DEV_TIMEOUT"):
                tmo = min(tmo, int(os.environ["VERIF_DEV_TIMEOUT"]))
            rc, out, err, dt, to = run(tcmd, timeout=tmo, mem_gb=job.mem_gb)
            res.t_cbmc = dt
            m = re.search(r"VRSS=(\d+)", err)
            if m:
                res.rss_mb = int(m.group(1)) // 1024
            if to:
                res.error = "timeout after %ds (inconclusive, not a pass)" % job.timeout
                return res
            try:
                doc = json.loads(out)
            except Exception:
                res.error = "cbmc output not JSON (rc=%s): %s" % (rc, (out[-1500:] + err[-1500:]))
                return res
            self.classify(job, res, doc, rc)
        except CheckError as e:
            res.error = str(e)
        return res

    def classify(self, job, res, doc, rc):
        results = None
        for e in doc:
            if "result" in e:
                results = e["result"]
            mt = e.get("messageText", "")
            m = re.search(r"Runtime decision procedure: ([\d.]+)s", mt) or \
                re.search(r"Runtime Solver: ([\d.]+)s", mt)
            if m:
                res.solver_s += float(m.group(1))
            m = re.search(r"(\d+) variables, (\d+) clauses", mt)
            if m:
                res.vars = (int(m.group(1)), int(m.group(2)))
            if e.get("messageType") == "ERROR":
                res.error = (res.error or "") + mt[:800]
        if results is None:
            res.error = (res.error or "") + " no result block in cbmc output (rc=%s)" % rc
            return
        res.error = None if results else res.error
        reach_failed = set()
        reach_all = set()
        for r in results:
            d = r.get("description", "")
            st = r.get("status")
            cls = r.get("sourceLocation", {}).get("propertyClass", "") or r.get("propertyClass", "")
            res.n_props += 1
            if d.startswith("REACH:"):
                reach_all.add(d)
                if st == "FAILURE":
                    reach_failed.add(d)
                    if res.witness is None and "trace" in r:
                        res.witness = trace_input(r["trace"])
                continue
            if "unwinding assertion" in d or cls == "unwinding assertion":
                if st != "SUCCESS":
                    res.unwind_failed.append(r)
                continue
            if d.startswith("pointer relation:") or d.startswith("pointer arithmetic:") or d.startswith("same object violation"):
                # forming/comparing an out-of-bounds pointer WITHOUT dereferencing it (e.g. dns.c
                # `data = rdatastart + rlen` before CHECKLEN): standard-level UB that no sanitizer can
                # confirm; triaged by reading, reported separately, not part of the claimed checks
                res.n_ptrform += (st != "SUCCESS")
                continue
            if d.startswith("PROP:"):
                res.n_prop_asserts += 1
            else:
                res.n_safety += 1
            if st == "UNKNOWN":
                res.n_unknown += 1
                continue
            if st != "SUCCESS":
                loc = r.get("sourceLocation", {})
                res.failed.append({
                    "property": r.get("property"), "description": d,
                    "kind": "assertion" if d.startswith("PROP:") else "safety",
                    "file": os.path.basename(loc.get("file", "")), "function": loc.get("function"),
                    "line": loc.get("line"), "input": trace_input(r.get("trace", [])),
                })
        if res.failed and all(f["input"] is None for f in res.failed):
            # FAILURE verdicts without any counterexample trace: seen only when the solver hit the memory limit
            res.error = "failures reported without a counterexample trace (resource exhaustion?): inconclusive"
            res.failed = []
        res.n_reach = len(reach_all)
        res.reach_ok = len(reach_failed)
        if res.failed:
            pass   # after a fatal failure CBMC 6 leaves later properties UNKNOWN; the failure is the verdict
        elif res.n_unknown:
            res.error = "%d properties UNKNOWN without any failure" % res.n_unknown
        elif res.unwind_failed and not res.failed:
            res.error = "unwinding assertion failed (%s): bound too small or loop no longer bounded" % \
                ", ".join(sorted(set(r.get("property", "?") for r in res.unwind_failed)))
        elif reach_all - reach_failed:
            res.error = "VACUOUS: reach-witness not reachable: %s" % sorted(reach_all - reach_failed)
        elif not reach_all:
            res.error = "harness has no reach-witness"
        res.ok = (res.error is None and not res.failed)

    # ---------- native replay ----------
    def replay_native(self, job, inp, tag):
        """Re-execute the counterexample on an unscaled native ASan/UBSan build of the same
        real sources. Returns (reproduced: bool|None, text)."""
        if inp is None:
            return None, "no input struct in trace"
        jd = os.path.join(self.scratch.root, "replay_" + tag)
        os.makedirs(jd, exist_ok=True)
        open(os.path.join(jd, "replay_in.h"), "w").write("#define VIN_INIT %s\n" % c_init(inp))
        defs = ["-D%s=%s" % (k, v) if v is not None else "-D%s" % k for k, v in job.defs.items()]
        units = job.native_units if job.native_units is not None else job.units
        exe = os.path.join(jd, "replay")
        # the counterexample's sizes refer to the job's (possibly scaled) copy of the sources, so the native
        # replay is built from that same copy: real code, same buffer sizes, ASan/UBSan instead of CBMC
        nsrc, _ = self.scratch.scaled_src(job.scale, job.subst)
        cc = ["gcc", "-g", "-O0", "-fsanitize=address,undefined", "-fno-sanitize-recover=undefined",
              "-fno-omit-frame-pointer", "-w"] + BASE_CFLAGS + ["-DVREPLAY", "-I", jd, "-I", nsrc,
              "-I", HARNESS_DIR] + defs
        objs = []
        srcs = [os.path.join(HARNESS_DIR, h) for h in [job.harness] + job.hunits] + \
               [os.path.join(nsrc, u) for u in units]
        for u in srcs:
            o = os.path.join(jd, os.path.basename(u) + ".o")
            ud = ["-D%s=%s" % kv for kv in job.unit_defs.get(os.path.basename(u), {}).items()]
            rc, out, err, dt, to = run(cc + ud + ["-c", u, "-o", o], timeout=300)
            if rc != 0:
                return None, "native replay build failed: " + (out + err)[-1500:]
            objs.append(o)
        rc, out, err, dt, to = run(["gcc", "-fsanitize=address,undefined"] + objs + ["-o", exe, "-lz"], timeout=300)
        if rc != 0:
            return None, "native replay link failed: " + (out + err)[-1500:]
        env = dict(os.environ, ASAN_OPTIONS="detect_leaks=0:exitcode=99:detect_stack_use_after_return=0",
                   UBSAN_OPTIONS="halt_on_error=1:exitcode=98:print_stacktrace=1")
        rc, out, err, dt, to = run([exe], timeout=20, env=env)
        txt = (out + err)[-3000:]
        if to:
            return True, "native replay did not terminate within 20 s\n" + txt
        if rc == 78:
            return False, "replay input violates a harness assumption natively\n" + txt
        if rc == 0:
            return False, "native replay passed\n" + txt
        return True, "native replay failed rc=%s\n%s" % (rc, txt)


def load_known(path=None):
    path = path or os.path.join(VERIF, "known_findings.txt")
    kn = []
    if not os.path.exists(path):
        return kn
    for line in open(path):
        line = line.strip()
        if not line or line.startswith("#") or line.startswith("fixed:"):
            continue
        m = re.match(r"finding:\s+property=(\S+)\s+job=(\S+)\s+match=/(.*?)/\s+::\s+(.*)$", line)
        if m:
            kn.append({"property": m.group(1), "job": m.group(2), "match": m.group(3), "what": m.group(4)})
    return kn


def match_known(kn, prop, jobname, f):
    key = "%s|%s|%s|%s" % (f.get("file"), f.get("function"), f.get("line"), f.get("description"))
    for k in kn:
        if k["property"] == prop and re.fullmatch(k["job"], jobname) and re.search(k["match"], key):
            return k
    return None
