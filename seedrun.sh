#!/bin/sh
# seedrun.sh <seed-name> <PROP> <only-regex> : run one check against a scratch worktree of /repo with the seeded patch applied
# (development aid; leaves /repo untouched; removes the worktree afterwards)
S=$1; P=$2; RX=$3
W=/tmp/sw-$S
git -C /repo worktree remove --force $W >/dev/null 2>&1
git -C /repo worktree add -q --detach $W HEAD || exit 3
if ! git -C $W apply /verif/seeded/$S/patch.diff; then echo "SEED $S: patch does not apply"; git -C /repo worktree remove --force $W; exit 3; fi
cd /verif
VERIF_REPO=$W VERIF_MEM_GB=${MEMGB:-14} python3 check.py $P --tier quick --only "$RX" --no-evidence --jobs ${J:-3} > /var/tmp/seed-$S-$P.log 2>&1
rc=$?
echo "SEED $S prop=$P rc=$rc $(grep -c '^VIOLATION' /var/tmp/seed-$S-$P.log) violation line(s); $(grep -c 'CHECK-ERROR' /var/tmp/seed-$S-$P.log) check-error(s)"
grep '^VIOLATION' /var/tmp/seed-$S-$P.log | head -3 | cut -c1-300
git -C /repo worktree remove --force $W
