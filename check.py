#!/usr/bin/env python3
"""check.py <PROPERTY-ID> [--tier quick|thorough] [--jobs N] [--only regex] [--keep]

Decides one property of /verif/properties.jsonl on /repo's *current working tree* by bounded
symbolic execution (CBMC) of the real translation units. Exit 0: held on everything explored;
exit 1 + "VIOLATION property=<id> replay=<path>": a counterexample; exit 2: the machinery could
not decide (build error, timeout, vacuous harness) -- never reported as success.
"""
import argparse, concurrent.futures as cf, hashlib, json, os, re, sys, time

sys.path.insert(0, os.path.dirname(os.path.abspath(__file__)))
from vlib import core
from vlib.core import Runner, load_known, match_known, compact
import jobs as jobdefs


def main():
    ap = argparse.ArgumentParser()
    ap.add_argument("prop", nargs="?")
    ap.add_argument("--selftest", action="store_true")
    ap.add_argument("--replay", default=None)
    ap.add_argument("--tier", default=os.environ.get("VERIF_TIER", "quick"))
    ap.add_argument("--jobs", type=int, default=int(os.environ.get("VERIF_JOBS", "0")))
    ap.add_argument("--only", default=None)
    ap.add_argument("--no-evidence", action="store_true")
    a = ap.parse_args()
    if a.selftest:
        return selftest()
    if a.replay:
        return replay(a.replay)
    tier = a.tier if a.tier in ("quick", "thorough") else "quick"
    try:
        seed = int(os.environ.get("VERIF_SEED", "0"))
    except ValueError:
        seed = 0
    spec = jobdefs.PROPS.get(a.prop)
    if spec is None:
        print("unknown or unclaimed property %s" % a.prop)
        return 2
    joblist = spec["jobs"](tier)
    if a.only:
        joblist = [j for j in joblist if re.search(a.only, j.name)]
    rn = Runner(a.prop, tier, seed)
    par = a.jobs or spec.get("parallel", {}).get(tier) or min(16, max(1, os.cpu_count() or 1))
    t0 = time.time()
    results = []
    # memory budget: the sum of the per-job RLIMIT_AS of running jobs stays below MEM_BUDGET_GB
    import threading
    budget = {"free": float(os.environ.get("VERIF_MEM_GB", "44"))}
    cond = threading.Condition()

    def guarded(j):
        need = min(j.mem_gb, budget["free"] if budget["free"] > 0 else j.mem_gb)
        need = j.mem_gb
        with cond:
            while budget["free"] < need and budget["free"] < float(os.environ.get("VERIF_MEM_GB", "44")):
                cond.wait()
            budget["free"] -= need
        try:
            return rn.solve(j)
        finally:
            with cond:
                budget["free"] += need
                cond.notify_all()

    with cf.ThreadPoolExecutor(max_workers=par) as ex:
        futs = {ex.submit(guarded, j): j for j in joblist}
        for f in cf.as_completed(futs):
            r = f.result()
            results.append(r)
            st = "ok" if r.ok else ("ERROR" if r.error else "FAILED")
            print("[%s] job %-40s %-6s props=%d (assert=%d safety=%d reach=%d/%d) cbmc=%.1fs rss=%sMB %s" % (
                a.prop, r.job.name, st, r.n_props, r.n_prop_asserts, r.n_safety, r.reach_ok, r.n_reach,
                r.t_cbmc, r.rss_mb, (r.error or "")[:300].replace("\n", " ")), flush=True)
    results.sort(key=lambda r: r.job.name)

    known = load_known()
    violations, knowns, errors, notes = [], [], [], []
    os.makedirs(os.path.join(core.VERIF, "replays"), exist_ok=True)
    for r in results:
        if r.error and not r.failed:
            errors.append("%s: %s" % (r.job.name, r.error))
            continue
        seen = set()
        for f in r.failed:
            k = match_known(known, a.prop, r.job.name, f)
            if k:
                knowns.append((k, r.job.name, f))
                continue
            key = (f["file"], f["function"], f["line"], f["description"])
            if key in seen:
                continue
            seen.add(key)
            if len(seen) > 3:       # same job: report the first three distinct failing checks only
                continue
            h = hashlib.sha1(("%s|%s|%s" % (a.prop, r.job.name, key)).encode()).hexdigest()[:10]
            tag = "%s-%s" % (a.prop, h)
            rep, txt = rn.replay_native(r.job, f["input"], tag)
            if rep is False and f["kind"] == "safety" and f["description"].startswith("arithmetic overflow"):
                # CBMC also flags narrow-type arithmetic (e.g. `char c; c--`), which is not UB in C (integer
                # promotion + implementation-defined conversion). UBSan is precise for this class, so an
                # overflow report that does not reproduce under UBSan is triaged as a tool artefact.
                print("NOTE property=%s job=%s unconfirmed '%s' at %s:%s - not UB under integer promotion (UBSan replay clean)" % (
                    a.prop, r.job.name, f["description"], f["file"], f["line"]))
                notes.append("%s: %s at %s:%s (narrow-type arithmetic, UBSan replay clean)" % (r.job.name, f["description"], f["file"], f["line"]))
                continue
            path = os.path.join(core.VERIF, "replays", tag + ".json")
            json.dump({"property": a.prop, "job": r.job.name, "defs": r.job.defs, "harness": r.job.harness,
                       "failed_check": {k2: f[k2] for k2 in ("property", "description", "kind", "file", "function", "line")},
                       "input": f["input"], "native_replay_reproduced": rep, "native_replay_output": txt,
                       "cbmc_args": r.cmd}, open(path, "w"), indent=1)
            violations.append((path, r.job.name, f, rep))
        if r.error:
            errors.append("%s: %s" % (r.job.name, r.error))

    for k, jn, f in knowns:
        pass
    printed = set()
    for k, jn, f in knowns:
        if k["what"] not in printed:
            printed.add(k["what"])
            print("KNOWN-FINDING: property=%s %s" % (a.prop, k["what"]))
    for path, jn, f, rep in violations:
        print("VIOLATION property=%s replay=%s  # job=%s %s at %s:%s (%s) native_replay=%s" % (
            a.prop, path, jn, f["description"], f["file"], f["line"], f["function"],
            {True: "reproduced", False: "not-reproduced", None: "unavailable"}[rep]))
    for e in errors:
        print("CHECK-ERROR property=%s %s" % (a.prop, e[:600].replace("\n", " ")))

    wall = time.time() - t0
    if not a.no_evidence and not a.only:
        write_evidence(a.prop, tier, seed, spec, results, violations, knowns, errors, wall)
    if violations:
        return 1
    if errors:
        return 2
    return 0


def selftest():
    import shutil, subprocess
    ok = True
    for t in ("cbmc", "goto-cc", "gcc", "python3"):
        w = shutil.which(t)
        print("%-8s %s" % (t, w))
        ok = ok and bool(w)
    print(subprocess.run(["cbmc", "--version"], capture_output=True, text=True).stdout.strip())
    os.makedirs(os.path.join(core.VERIF, "replays"), exist_ok=True)
    os.makedirs(os.path.join(core.VERIF, "evidence"), exist_ok=True)
    return 0 if ok else 2


def replay(path):
    """Re-execute a stored counterexample natively (ASan/UBSan) against /repo's current tree."""
    rp = json.load(open(path))
    rn = Runner(rp["property"], "quick")
    job = None
    for j in jobdefs.PROPS[rp["property"]]["jobs"]("thorough") + jobdefs.PROPS[rp["property"]]["jobs"]("quick"):
        if j.name == rp["job"]:
            job = j
    if job is None:
        print("job %s no longer exists" % rp["job"])
        return 2
    rep, txt = rn.replay_native(job, rp["input"], "manual")
    print(txt)
    print("reproduced" if rep else "not reproduced")
    return 1 if rep else 0


def write_evidence(prop, tier, seed, spec, results, violations, knowns, errors, wall):
    n_oblig = sum(r.n_prop_asserts + r.n_safety for r in results)
    n_disch = sum((r.n_prop_asserts + r.n_safety - len(r.failed)) for r in results if not (r.error and not r.failed))
    samples = []
    for r in results:
        samples.append({
            "job": r.job.name, "what": r.job.desc, "bounds": r.job.bounds, "cell": r.job.defs,
            "functions_encoded": r.job.functions, "cbmc_args": r.cmd,
            "assertions": r.n_prop_asserts, "builtin_safety_checks": r.n_safety,
            "reach_witnesses_confirmed": "%d/%d" % (r.reach_ok, r.n_reach),
            "sat_vars_clauses": r.vars, "cbmc_wall_s": round(r.t_cbmc, 1), "solver_s": round(r.solver_s, 1),
            "peak_rss_mb": r.rss_mb, "scaling_substitutions": r.subst,
            "status": "ok" if r.ok else ("error: " + r.error[:200] if r.error else "failed"),
            "witness_input": compact(r.witness) if r.witness is not None else None,
        })
    ev = {
        "property_id": prop, "tier": tier, "seed": seed, "level": spec.get("level", "model_checking"),
        "coverage": {
            "evaluations": len(results),
            "distinct_nontrivial": sum(1 for r in results if r.ok and (r.n_prop_asserts + r.n_safety) > 0 and r.reach_ok > 0),
            "rule": "one evaluation = one CBMC query (harness x cell) over the real translation units, symbolic inputs "
                    "within the stated bounds, --unwinding-assertions on; non-trivial = query discharged >=1 property "
                    "assertion or built-in memory/UB check AND its reach-witness (assert(0) at the end of the harness "
                    "and in the interesting branches) came back FAILED, i.e. the assertions are not vacuous",
            "samples": samples,
            "obligations": n_oblig, "discharged": n_disch,
            "checker_cmd": "cbmc 6.11 (goto-cc build of /repo/src working tree, SAT back end); flags per sample",
            "trusted_base": ["cbmc 6.11.0 + its C library models", "harness stubs listed under assumptions",
                             "buffer-scaling transform where scaling_substitutions>0"],
            "explanation": spec.get("explanation", ""),
            "exhaustive": False,
            "solver_time_s": round(sum(r.solver_s for r in results), 1),
            "cbmc_wall_s_total": round(sum(r.t_cbmc for r in results), 1),
            "known_findings_matched": sorted(set(k["what"] for k, _, _ in knowns)),
            "errors": errors,
        },
        "assumptions": spec.get("assumptions", []),
        "wall_s": round(wall, 1),
        "violations": len(violations),
    }
    os.makedirs(os.path.join(core.VERIF, "evidence"), exist_ok=True)
    json.dump(ev, open(os.path.join(core.VERIF, "evidence", prop + ".json"), "w"), indent=1)


if __name__ == "__main__":
    sys.exit(main())
